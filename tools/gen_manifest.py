#!/usr/bin/env python3
"""Regenerates /verif/MANIFEST.json from the table below + the property modules present."""
import json
import os

VERIF = os.path.dirname(os.path.dirname(os.path.abspath(__file__)))

# id -> (category, technique, level text, level note, design ref)
T = {
 "C01": ("exploration", "runtime monitoring: API-boundary oracle over generated code/appid pairs on the real stack in a simulated kernel",
         "held on the generated code pairs, appids, purposes and schedules; key agreement iff NFC-equal code and equal appid, else no verifier/versions/message and WrongPasswordError",
         "SimNet fidelity; a bridging server is used to let differing appids meet", "3/C01"),
 "C02": ("exploration", "runtime monitoring: tampering mailbox server (MITM at the real server's send) + delivered-plaintext oracle",
         "held on the tamper operation x position matrix explored: every delivered plaintext equals an honest send of that phase and side, exactly once",
         "tamper operations are those listed in DESIGN 3/C02; cases where no tampered message was processed are not counted", "3/C02"),
 "C03": ("exploration", "runtime monitoring: prefix oracle on send_message/get_message histories under a reordering+duplicating real server, swept and random connection cuts",
         "held on every explored interleaving, drop pattern and delivery permutation; evidence lists reorders/duplicates/drops actually performed",
         "SimNet fidelity; unique payload ids", "3/C03"),
 "C04": ("fault_enumeration", "runtime monitoring: real `wormhole send`/`receive` in the simulator, filesystem oracle, cut/corrupt sweep over transit stream positions, lying receiver",
         "held for the payload classes and every swept fault position: success on both sides implies byte-exact output; faults before completion never yield success or a final file",
         "sizes <= ~1MB; SimNet fidelity", "3/C04"),
 "C05": ("exploration", "runtime monitoring: audit-hook + filesystem snapshot oracle around real `wormhole receive` driven by a scripted malicious sender",
         "held on the explored offer-name x zip-member x configuration matrix: all writes inside the announced destination, no clobbering outside the stated rules",
         "audit hook sees Python-level filesystem writes; sandbox under a temp dir", "3/C05"),
 "C06": ("fault_enumeration", "runtime monitoring: record-history oracle on real transit Connection pairs with MITM frame operations swept over every frame index and field",
         "held for generated record sequences/chunkings and every swept single-point manipulation: delivered records are a prefix of those sent, tampering drops the connection and fails reads",
         "SimNet fidelity", "3/C06"),
 "C07": ("exploration", "runtime monitoring: network monitor + result oracle over contended transit negotiation (strangers, wrong keys, stalls, relay) with byte-wise handshake interleaving",
         "held on explored contender mixes and interleavings: one confirmed link, both results are its two ends, losers closed, deadline honoured in virtual time",
         "SimNet fidelity; virtual time", "3/C07"),
 "C08": ("fault_enumeration", "runtime monitoring: close() inserted at every step of baseline runs (sweep) + random drops; oracle = reference verdict model + real server tables",
         "held for close at every step of the baselines and random close/drop patterns: one closed notification, right verdict, nameplate released, mailbox closed with matching mood, connection dropped",
         "verdict model fed by the client-side processing order; tls-mode late delivery only in thorough", "3/C08"),
 "C09": ("fault_enumeration", "runtime monitoring: drop swept before every step of baseline exchanges + random multi-drop sequences; completeness oracle after a fault-free drain in virtual time",
         "held for every swept drop point and random drop sequences: after faults stop everything sent is delivered once, server never answers error, commands re-issued per connection",
         "bounded progress: 300 virtual seconds after the last fault", "3/C09"),
 "C10": ("fault_enumeration", "runtime monitoring: subchannel callback-history oracle on a real dilated wormhole pair with L2 link kills swept over record boundaries and mid-frame offsets",
         "held for the explored open/write/close scripts and every swept kill position: peer callbacks equal the opener's calls, once, in order, boundaries preserved",
         "Noise stand-in (spec-conformant NNpsk0), SimNet fidelity", "3/C10"),
 "C11": ("exploration", "runtime monitoring: per-step state probes (roles, selected connections) + convergence-in-virtual-time oracle under link loss / blackhole / timing variation",
         "held on explored schedules: roles complementary, at most one selected live connection per side, follower only on leader-selected link, re-convergence within the drain bound (also with an application streaming into a silently dead link)",
         "Noise stand-in; state probes read anchored private state between steps", "3/C11"),
 "C12": ("exploration", "runtime monitoring: codec round-trip oracle on real _Framer/_Record with the Noise stand-in under all fragmentations + rejection oracle under attacks on a live listener",
         "held for generated records (all 7 types, boundary sizes) and chunkings; unkeyed/corrupt input dropped with nothing surfaced, except the recorded finding: a multi-Noise-message frame re-framed at a message boundary (known_findings.json)",
         "Noise stand-in", "3/C12"),
 "C13": ("exploration", "runtime monitoring: protocol-callback oracle over random connect/listen/write/close interleavings on a dilated pair",
         "held on explored interleavings: one buildProtocol per open with the requested subprotocol, disjoint ids, data before close, single connectionLost, write-after-close raises, undeclared subprotocol refused; recorded finding: half-closeable protocols never get connectionLost",
         "Noise stand-in", "3/C13"),
 "C14": ("exploration", "runtime monitoring: automat NoTransition monitor + log/escape monitors over random legal API programs against an awkward-but-conformant real server",
         "held on explored programs/schedules; evidence lists distinct (machine,state,input) pairs exercised",
         "scope: every automat machine of the client incl. Dilation when dilate() is called (no subchannel traffic); tls late-delivery labelled", "3/C14"),
 "C15": ("exploration", "runtime monitoring: recording producers + transport probes between scheduler steps under tiny send buffers, random (un)registration and link replacement",
         "held on explored schedules: all producers paused while blocked, all resumed after drain, inbound pause iff some live subchannel paused, no record delivered to a subchannel that paused on the same connection; recorded finding: records a replacement connection had parked before the pause are still delivered (known_findings.json)",
         "Noise stand-in; probes of Outbound/Inbound state between steps", "3/C15"),
 "C16": ("exploration", "runtime monitoring: virtual-time oracle on ping/pong/drop events for responsive, slow and silent (blackholed) peers over many ping intervals",
         "held on explored intervals/latencies: silent peer dropped < 3 intervals after last answered ping, responsive peer never dropped, monitoring stops/resumes with the connection; recorded finding: the Leader drops a responsive peer while its own application has paused reading",
         "Noise stand-in; virtual time", "3/C16"),
 "C17": ("fault_enumeration", "runtime monitoring: close() swept over every step of dilation baselines; network-monitor leak oracle + OldPeerCannotDilateError oracle",
         "held for close at every swept step: close fires, no listener/pending connect/live connection/timer left; incapable peer reported; recorded finding: close() with unsent data while the peer application has paused reading waits for the peer (known_findings.json)",
         "Noise stand-in", "3/C17"),
 "C18": ("exploration", "runtime monitoring: event-order oracle on delegate callbacks / Deferred firing order under reordering servers and reconnects",
         "held on explored schedules: each event at most once, causal order, no get_* hangs after close",
         "order-preserving server for the versions-before-messages clause", "3/C18"),
 "C19": ("exploration", "runtime monitoring: structural entropy oracle (exhaustive byte->word bijection via os.urandom recorder), format/rejection and completion-consistency oracles",
         "byte->word map checked exhaustively (256 x positions); form/rejection/completion/one-code-call held on generated inputs",
         "uniformity of os.urandom itself assumed", "3/C19"),
 "C20": ("exploration", "runtime monitoring: escape/log monitors + dial oracle over generated and mutated hint JSON through Transit.add_connection_hints/connect and the dilation connection-hints path",
         "held on generated hint lists: no exception, wormhole/connect not aborted, only valid hints dialled, produced hints round-trip",
         "Noise stand-in for the dilation path", "3/C20"),
}

QUICK = "/venv/bin/python -m vt.run --property {pid} --tier quick"
THOROUGH = "/venv/bin/python -m vt.run --property {pid} --tier thorough"

NA_REASON = {}


def main():
    checks = []
    na = []
    for pid in sorted(T):
        cat, tech, text, note, ref = T[pid]
        if os.path.exists(os.path.join(VERIF, "vt", "props", pid.lower() + ".py")) and pid not in NA_REASON:
            checks.append({
                "property_id": pid,
                "quick_cmd": QUICK.format(pid=pid),
                "thorough_cmd": THOROUGH.format(pid=pid),
                "evidence_file": "/verif/evidence/%s.json" % pid,
                "replay_cmd_template": "/venv/bin/python -m vt.run --replay {path}",
                "engine": "vt",
                "level_claimed": {"category": cat, "text": text, "design_ref": "DESIGN.md " + ref},
                "level_note": note,
                "technique": tech,
            })
        else:
            na.append({"property_id": pid,
                       "reason": NA_REASON.get(pid, "check not built yet (work in progress; runtime monitoring applies, see DESIGN.md %s)" % ref)})
    m = {
        "version": 1,
        "setup_cmd": "/venv/bin/python -m vt.selftest",
        "hooks": {
            "guard": "MAGIC_WORMHOLE_VERIF",
            "enable": "no in-tree hooks: all instrumentation is harness-side (DESIGN.md 2.7); checks import wormhole from /repo/src of the working tree",
            "baseline_off_cmd": "cd /repo && /venv/bin/python -m pytest -ra -q -p no:cacheprovider --timeout=900 --continue-on-collection-errors",
            "source_commits": [],
            "add_only": True,
        },
        "engines": [{"name": "vt", "path": "/verif/vt",
                     "serves_properties": [c["property_id"] for c in checks],
                     "kind_free_text": "runtime monitoring: the real client/server/relay stack on a simulated kernel (virtual time, in-memory TCP), seeded scheduler, boundary recorders and oracles"}],
        "checks": checks,
        "not_applicable": na,
        "notes": "All checks run the code in /repo/src of the current working tree (PYTHONPATH order set by vt.boot). Exit 2 = inconclusive (never on the unchanged tree).",
    }
    json.dump(m, open(os.path.join(VERIF, "MANIFEST.json"), "w"), indent=1)
    print("checks:", [c["property_id"] for c in checks], "na:", [n["property_id"] for n in na])


if __name__ == "__main__":
    main()
