#!/usr/bin/env python3
"""Regenerates the round >= 2 tables of DESIGN.md section 10.2 from /verif/seeded/*/meta.json
(between the markers <!-- seeded-table:begin --> and <!-- seeded-table:end -->)."""
import glob
import json
import re

rows = {}
for q in sorted(glob.glob("/verif/seeded/*/meta.json")):
    m = json.load(open(q))
    rnd = int(m["id"].split("-s")[1])
    if rnd < 2:
        continue
    h = m.get("history") or ""
    h = re.sub(r"^round \d+: [^;]*; ", "", h)
    if h.startswith("missed") or h.startswith("not caught by"):
        res = "**missed at first**: " + re.sub(r"^missed by the ", "", h)
    else:
        res = "caught" if m["check"]["exit"] == 1 else "**MISSED**: " + re.sub(r"^NOT caught[,:]? ?", "", h)
    keys = ", ".join("`%s`" % k[4:] for k in m["check"]["violation_keys"][:2])
    needs = re.sub(r"^needs ", "", m.get("needs") or "")
    rows.setdefault(rnd, []).append("| %s | %s; needs: %s | %s | %s |" % (m["id"], m.get("what"), needs, res, keys))
out = []
tot = miss = 0
for rnd in sorted(rows):
    out.append("Round %d (each agent was told which mechanisms earlier rounds had used and asked for a different clause, file and trigger; %d breakages):\n" % (rnd, len(rows[rnd])))
    out.append("| id | change; what it needs to manifest | quick check | keys |\n|---|---|---|---|")
    out += rows[rnd]
    out.append("")
    tot += len(rows[rnd])
    miss += sum("missed at first" in r for r in rows[rnd])
    never = globals().get("never", 0) + sum("**MISSED**" in r for r in rows[rnd])
    globals()["never"] = never
never = globals().get("never", 0)
out.append("Rounds >= 2 together: %d breakages, %d caught by the check as it stood, %d missed at first and caught after the workload or the oracle was widened, %d not caught (reason in the table)." % (tot, tot - miss - never, miss, never))
text = "\n".join(out)
s = open("/verif/DESIGN.md").read()
b, e = "<!-- seeded-table:begin -->", "<!-- seeded-table:end -->"
i, j = s.index(b), s.index(e)
s = s[:i + len(b)] + "\n" + text + "\n" + s[j:]
open("/verif/DESIGN.md", "w").write(s)
print(text[-300:])
