#!/bin/bash
# runs every mutants/cNN_*.patch against its property's quick check; prints CAUGHT/MISSED per mutant
cd "$(dirname "$0")/.."
for f in mutants/c[0-9][0-9]_*.patch; do
  n=$(basename "$f" .patch); p=$(echo "${n:0:3}" | tr c C)
  out=$(tools/mutant.sh "$f" "$p" quick 2>&1); rc=$?
  keys=$(echo "$out" | grep -oE "key=[^ ]+" | sort -u | head -4 | tr '\n' ' ')
  if [ $rc -eq 1 ]; then echo "CAUGHT $p $n $keys"; elif [ $rc -eq 3 ]; then echo "PATCHFAIL $p $n"; else echo "MISSED($rc) $p $n"; fi
done
