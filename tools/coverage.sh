#!/bin/bash
# line coverage of /repo/src/wormhole under all quick checks (needs the `coverage` module of /venv)
D=${1:-/tmp/vt-cov}; rm -rf "$D"; mkdir -p "$D"; cd "$(dirname "$0")/.."
for p in $(python3 -c "import json;print(' '.join(c['property_id'] for c in json.load(open('MANIFEST.json'))['checks']))"); do
  VT_COVERAGE=$D/data VT_JOBS=8 /venv/bin/python -m vt.run -p $p --tier quick --no-evidence >/dev/null 2>&1
done
/venv/bin/python -m coverage combine --data-file=$D/data $D >/dev/null 2>&1
/venv/bin/python -m coverage report --data-file=$D/data | tee $D/report.txt | tail -50
rm -f $D/data*
