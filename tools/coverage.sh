#!/bin/bash
# line coverage of /repo/src/wormhole under all quick checks (needs the `coverage` module of /venv)
D=${1:-/tmp/vt-cov}; rm -rf "$D"; mkdir -p "$D"; cd "$(dirname "$0")/.."
for p in $(python3 -c "import json;print(' '.join(c['property_id'] for c in json.load(open('MANIFEST.json'))['checks']))"); do
  VT_COVERAGE=$D/data VT_JOBS=8 /venv/bin/python -m vt.run -p $p --tier quick --no-evidence >/dev/null 2>&1
done
/venv/bin/python -m coverage combine --data-file=$D/data $D >/dev/null 2>&1
/venv/bin/python -m coverage report --data-file=$D/data | tee $D/report.txt | tail -50
/venv/bin/python -m coverage report -m --data-file=$D/data --include="*/_dilation/*,*/transit.py,*/_boss.py,*/_mailbox.py,*/_nameplate.py,*/_rendezvous.py,*/_hints.py,*/_input.py,*/_code.py,*/_key.py,*/_receive.py,*/_send.py,*/_order.py,*/_terminator.py,*/_allocator.py,*/_lister.py,*/wormhole.py,*/observer.py,*/cli/cmd_send.py,*/cli/cmd_receive.py" > $D/missing.txt 2>&1
rm -f $D/data*
