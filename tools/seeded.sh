#!/bin/bash
# usage: tools/seeded.sh <seeded-id> <property> <worktree>   (worktree holds the sub-agent's uncommitted change + demo_break.py + BREAK.md)
# Confirms the change independently, stores it under /verif/seeded/<id>/ and runs the property's check against it.
set -u
ID=$1; PROP=$2; WT=$3
OUT=/verif/seeded/$ID; mkdir -p "$OUT"
git -C "$WT" diff -- src > "$OUT/patch.diff"
[ -s "$OUT/patch.diff" ] || { echo "no source change in $WT"; exit 3; }
cp "$WT/demo_break.py" "$OUT/demo_break.py" 2>/dev/null
cp "$WT/BREAK.md" "$OUT/BREAK.md" 2>/dev/null
export PYTHONPATH=$WT/src:/tmp/noiseshim
demo() { if grep -q "def test_" "$WT/demo_break.py" && ! grep -q "__main__" "$WT/demo_break.py"; then (cd "$WT" && timeout 600 /venv/bin/python -m pytest -q -p no:cacheprovider --timeout=300 demo_break.py >/dev/null 2>&1); else (cd "$WT" && timeout 600 /venv/bin/python demo_break.py >/dev/null 2>&1); fi; echo $?; }
TESTS=$(cd "$WT" && /venv/bin/python -m pytest -q -p no:cacheprovider --timeout=900 -n 8 2>&1 | tail -1)
D_WITH=$(demo)
# (no git stash: the stash is shared by all worktrees of a repository)
git -C "$WT" checkout -q -- src
D_WITHOUT=$(demo)
git -C "$WT" apply "$OUT/patch.diff"
unset PYTHONPATH
cd /verif
# the check runs against the CURRENT /repo/src plus this change (the worktree may predate later fix commits)
CHK=$(tools/mutant.sh "$OUT/patch.diff" "$PROP" quick 2>&1); RC=$?
KEYS=$(echo "$CHK" | grep -oE "key=[^ ]+" | sort -u | head -5 | tr '\n' ' ')
echo "$ID $PROP tests=[$TESTS] demo_with=$D_WITH demo_without=$D_WITHOUT check_rc=$RC $KEYS"
python3 - "$ID" "$PROP" "$TESTS" "$D_WITH" "$D_WITHOUT" "$RC" "$KEYS" <<'PY'
import json,sys
i,p,t,dw,dwo,rc,keys=sys.argv[1:8]
m={"id":i,"property":p,"source":"independent sub-agent given only the property text and a scratch worktree",
 "confirmed":{"existing_test_suite_with_change":t,"demo_exit_with_change":int(dw),"demo_exit_without_change":int(dwo)},
 "check":{"cmd":"tools/mutant.sh seeded/%s/patch.diff %s quick   (scratch copy of /repo/src + the change)"%(i,p),"exit":int(rc),"violation_keys":keys.split()},
 "caught_by_quick": int(rc)==1}
try:
    old=json.load(open("/verif/seeded/%s/meta.json"%i)); m["needs"]=old.get("needs"); m["what"]=old.get("what")
except Exception: pass
json.dump(m,open("/verif/seeded/%s/meta.json"%i,"w"),indent=1)
PY
