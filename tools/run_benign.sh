#!/bin/bash
# runs ALL quick checks against each behaviour-preserving change in benign/*.patch (applied to a scratch
# copy of /repo/src, never to /repo).  Expected: every check exits 0.  Prints one line per patch.
cd "$(dirname "$0")/.."
PROPS=${PROPS:-"C01 C02 C03 C04 C05 C06 C07 C08 C09 C10 C11 C12 C13 C14 C15 C16 C17 C18 C19 C20"}
for f in ${@:-benign/*.patch}; do
  n=$(basename "$f" .patch); F=$(readlink -f "$f")
  D=$(mktemp -d /tmp/vt-ben-XXXXXX)
  cp -r /repo/src "$D/src"; find "$D/src" -name __pycache__ -type d -exec rm -rf {} + 2>/dev/null
  if ! ( cd "$D" && patch -p1 -s < "$F" ); then echo "PATCHFAIL $n"; rm -rf "$D"; continue; fi
  res=""
  for p in $PROPS; do
    out=$(VT_REPO_SRC="$D/src" /venv/bin/python -m vt.run -p "$p" --tier quick --no-evidence 2>&1); rc=$?
    if [ $rc -ne 0 ]; then res="$res $p=$rc[$(echo "$out" | grep -oE "key=[^ ]+|reason=.{0,80}" | sort -u | head -2 | tr '\n' ' ')]"; fi
  done
  if [ -z "$res" ]; then echo "SILENT $n"; else echo "NOISY $n$res"; fi
  rm -rf "$D"
done
