#!/bin/bash
# re-runs every independent breakage in seeded/<id>/patch.diff (applied to a scratch copy of the CURRENT
# /repo/src) against its property's quick check; prints CAUGHT/MISSED per breakage
cd "$(dirname "$0")/.."
for d in seeded/C*/; do
  id=$(basename "$d"); p=${id:0:3}
  # a breakage that is caught by a neighbouring property's check says so in its meta.json
  alt=$(python3 -c "import json,sys; print(json.load(open('$d/meta.json')).get('caught_by_check_of',''))" 2>/dev/null); [ -n "$alt" ] && p=$alt
  [ -s "$d/patch.diff" ] || continue
  out=$(tools/mutant.sh "$d/patch.diff" "$p" quick 2>&1); rc=$?
  keys=$(echo "$out" | grep -oE "key=[^ ]+" | sort -u | head -3 | tr '\n' ' ')
  if [ $rc -eq 1 ]; then echo "CAUGHT $id $keys"; elif [ $rc -eq 3 ]; then echo "PATCHFAIL $id"; else echo "MISSED($rc) $id"; fi
done
