#!/bin/bash
# usage: tools/mutant.sh <patch file> <property> [tier]
# Applies the patch to a scratch copy of /repo/src (never to /repo), runs the property's check
# against it, removes the copy.  Expected outcome for a mutant: exit 1.
set -u
PATCH=$(readlink -f "$1"); PROP=$2; TIER=${3:-quick}
D=$(mktemp -d /tmp/vt-mut-XXXXXX)
cp -r /repo/src "$D/src"
find "$D/src" -name __pycache__ -type d -exec rm -rf {} + 2>/dev/null
( cd "$D" && patch -p1 -s < "$PATCH" ) || { echo "PATCH FAILED"; rm -rf "$D"; exit 3; }
cd "$(dirname "$0")/.."
VT_REPO_SRC="$D/src" /venv/bin/python -m vt.run -p "$PROP" --tier "$TIER" --no-evidence
RC=$?
rm -rf "$D"
exit $RC
