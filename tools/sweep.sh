#!/bin/bash
# usage: tools/sweep.sh "<seeds>" [tier] [props...]   - runs checks over several VERIF_SEED values, prints alarms
SEEDS=${1:-"0 1 2 3"}; TIER=${2:-quick}; shift; shift
PROPS=${@:-$(python3 -c "import json;print(' '.join(c['property_id'] for c in json.load(open('/verif/MANIFEST.json'))['checks']))")}
cd "$(dirname "$0")/.."
for s in $SEEDS; do for p in $PROPS; do
  out=$(VERIF_SEED=$s /venv/bin/python -m vt.run -p $p --tier $TIER --no-evidence 2>&1); rc=$?
  echo "seed=$s $p rc=$rc $(echo "$out" | grep -E 'seed=' | cut -c1-110)"
  if [ $rc -ne 0 ]; then echo "$out" | grep -E "VIOL|key=|INCONC" | cut -c1-300; fi
done; done
