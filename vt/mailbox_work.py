"""Configurable two-party mailbox workload shared by the mailbox-layer properties."""
import hashlib

from .apps import WApp
from .env import World, client_link, rc_of
from .simnet import unwrap
from .sched import Scheduler
from .adversary import ReorderDup, HoldPermute

STRATS = ["random", "pct", "netfirst", "timersfirst", "appfirst"]

GATES = ("any", "code", "key", "verified")


def gate_open(app, gate):
    if gate == "any":
        return True
    kinds = app.kinds()
    if gate == "code":
        return "code" in kinds
    if gate == "key":
        return "key" in kinds
    return "verifier" in kinds


class TwoParty:
    """cfg keys (all optional): a_code alloc|set, b_code set|input, code, nwords, api_a, api_b,
    plan_a / plan_b: [(payload_hex_or_bytes, gate)], get_a/get_b eager|lazy, appid_a, appid_b,
    code_b (override what B types), versions_a, versions_b, dilation; get_x "never" = the application
    never asks for messages; get_limit = at most that many lazy get_message() calls per side"""

    def __init__(self, world, cfg):
        self.world = world
        self.cfg = cfg
        rng = world.work_rng
        self.a = WApp(world, "A", appid=cfg.get("appid_a", "vt.app"), api=cfg.get("api_a", "deferred"),
                      versions=cfg.get("versions_a"), eager_msgs=cfg.get("get_a", "eager") == "eager",
                      dilation=cfg.get("dilation", False))
        self.b = WApp(world, "B", appid=cfg.get("appid_b", "vt.app"), api=cfg.get("api_b", "deferred"),
                      versions=cfg.get("versions_b"), eager_msgs=cfg.get("get_b", "eager") == "eager",
                      dilation=cfg.get("dilation", False))
        self.plan = {"A": list(cfg.get("plan_a", [])), "B": list(cfg.get("plan_b", []))}
        self.b_started = False
        self.b_np = False
        self.b_words = False
        self.helper = None
        self.lazy = {"A": cfg.get("get_a", "eager") == "lazy", "B": cfg.get("get_b", "eager") == "lazy"}
        self.cancels = {"A": 0, "B": 0}
        self.stop_sending = False
        self.gets_issued = {"A": 0, "B": 0}
        if cfg.get("a_code", "alloc") == "alloc":
            self.a.call("allocate_code", cfg.get("nwords", 2))
        else:
            self.a.call("set_code", cfg.get("code", "7-purple-sausages"))
        if cfg.get("b_code", "set") == "input":
            self.helper = self.b.call("input_code")
        self.drops_done = 0
        self.drops_skipped = 0
        self.drop_kinds = {}
        self.bad_first_outcome = None

    def code_for_b(self):
        if "code_b" in self.cfg:
            return self.cfg["code_b"]
        return self.a.code

    def app(self, name):
        return self.a if name == "A" else self.b

    def actions(self):
        acts = []
        code = self.code_for_b()
        if self.a.code is not None and code is not None and (not self.b.closed or self.cfg.get("code_after_close")):
            if self.cfg.get("b_code", "set") == "set":
                if not self.b_started:
                    def give():
                        self.b_started = True
                        if self.cfg.get("bad_first_b"):
                            self.b.sent_before_code = list(self.b.sent)
                            # the application's first attempt is malformed (a pasted code with a blank in it); it catches
                            # the KeyFormatError and asks again
                            try:
                                self.b.w.set_code(self.cfg["bad_first_b"])
                                self.bad_first_outcome = "accepted"
                            except Exception as e:
                                self.bad_first_outcome = type(e).__name__
                        self.b.call("set_code", code)
                    acts.append((("app", "B.set_code"), give))
            else:
                np_, words = code.split("-", 1)
                if not self.b_np:
                    def choose_np():
                        self.b_np = True
                        self.helper.refresh_nameplates()
                        self.helper.get_nameplate_completions(np_[:1])
                        self.helper.choose_nameplate(np_)
                    acts.append((("app", "B.choose_nameplate"), choose_np))
                elif not self.b_words:
                    def choose_words():
                        self.b_words = True
                        self.b_started = True
                        self.helper.get_word_completions(words[:2])
                        self.helper.choose_words(words)
                    acts.append((("app", "B.choose_words"), choose_words))
        if not self.stop_sending:
            for name in ("A", "B"):
                app = self.app(name)
                plan = self.plan[name]
                i = len(app.sent)
                if i < len(plan) and not app.close_calls and gate_open(app, plan[i][1]):
                    acts.append((("app", name + ".send"), lambda app=app, p=plan[i][0]: app.send(p)))
        for name in ("A", "B"):
            app = self.app(name)
            if (self.lazy[name] and app.pending_gets < 3 and not app.closed and app.api == "deferred"
                    and "msg-err" not in app.kinds() and self.gets_issued[name] < self.cfg.get("get_limit", 1 << 30)):
                def get(app=app, name=name):
                    self.gets_issued[name] += 1
                    app.get_one_message()
                acts.append((("app", name + ".get"), get))
            if self.cfg.get("cancel_gets_" + name.lower(), 0) > self.cancels[name] and getattr(app, "open_gets", None) and not app.closed:
                def giveup(app=app, name=name):
                    if app.give_up_one_get():
                        self.cancels[name] += 1
                acts.append((("app", name + ".get-timeout"), giveup))
        return acts

    def drain_actions(self):
        return self.actions()

    # ---- faults
    def drop(self, name, how=None):
        """cut the mailbox connection of one client (only after its first successful open:
        a failure of the very first connection is documented as fatal)"""
        app = self.app(name)
        if not rc_of(app.w)._have_made_a_successful_connection:
            self.drops_skipped += 1
            return False
        link = client_link(self.world, app.w)
        if link is None:
            self.drops_skipped += 1
            return False
        how = how or "cut"
        if how == "blackhole":
            # nobody is told: the websocket layer finds out by ping timeout
            self.world.reactor.blackhole(link)
        elif how == "server-close":
            # the server ends the connection with a clean websocket close handshake
            sp = unwrap(link.ends[1].protocol)
            try:
                sp.sendClose(1001, "going away")
            except Exception:
                self.world.reactor.cut(link)
        else:
            self.world.reactor.cut(link)
        self.drops_done += 1
        self.drop_kinds[how] = self.drop_kinds.get(how, 0) + 1
        return True

    def both_connected_once(self):
        return (rc_of(self.a.w)._have_made_a_successful_connection and
                rc_of(self.b.w)._have_made_a_successful_connection)

    def all_sent(self):
        return (len(self.a.sent) == len(self.plan["A"]) and len(self.b.sent) == len(self.plan["B"]))

    def all_delivered(self):
        return self.all_sent() and self.a.msgs == self.b.sent and self.b.msgs == self.a.sent


def make_plan(rng, name, n, max_size=200, gates=GATES):
    plan = []
    for i in range(n):
        size = rng.choice([0, 1, 5, 40, rng.randint(0, max_size)])
        body = ("%s:%d:" % (name, i)).encode() + rng.randbytes(size)
        plan.append((body, rng.choice(gates)))
    if n >= 3 and rng.random() < 0.2:
        # the same bytes twice (or three times) in a row - a keep-alive, "ok", "ok" - are that many records
        i = rng.randrange(n - 1)
        for j in range(i + 1, min(n, i + rng.choice([2, 2, 3]))):
            plan[j] = (plan[i][0], plan[j][1])
    return _finish_plan(rng, name, n, plan)


def _finish_plan(rng, name, n, plan):
    if n >= 2 and rng.random() < 0.3:
        # one genuinely empty message (legal, and falsy): still identifiable because there is only one
        i = rng.randrange(n)
        plan[i] = (b"", plan[i][1])
    return plan


def prefix_violation(delivered, sent, own=()):
    """None if `delivered` is a prefix of `sent`, else (category, description) of the first
    mismatch"""
    for j, m in enumerate(delivered):
        if j < len(sent) and m == sent[j]:
            continue
        if m in own:
            cat = "own-message-delivered"
        elif m in sent[:j] or m in delivered[:j]:
            cat = "duplicate"
        elif m in sent:
            cat = "out-of-order-or-skipped"
        elif any(m and s and (m in s or s in m) for s in sent):
            cat = "split-merged-or-altered"
        else:
            cat = "never-sent"
        exp = repr(sent[j][:24]) if j < len(sent) else "(nothing: only %d sent)" % len(sent)
        return cat, "delivery #%d %r should be send #%d %s [%s]" % (j, m[:24], j, exp, cat)
    return None


def trace_digest(sched):
    h = hashlib.sha1(repr(sched.trace).encode()).hexdigest()[:16]
    return h


def b2s(x):
    if isinstance(x, (bytes, bytearray)):
        return bytes(x[:32]).hex() + ("..." if len(x) > 32 else "")
    return x


def events_view(app, limit=60):
    return [[s, k, b2s(v) if not isinstance(v, dict) else v] for (s, k, v) in app.ev[:limit]]


def build_case(spec, max_msgs=12, max_size=2000, adversary=True):
    seed = spec["seed"]
    world = World(seed, mailbox_mode=spec.get("mode", "tcp"), welcome_error=spec.get("welcome_error"))
    if spec.get("welcome") is not None:
        # a server that greets with exactly this welcome (older servers send an empty one)
        world.welcome_override = spec["welcome"]
    rng = world.work_rng
    kind = spec["kind"]
    cfg = {
        "a_code": rng.choice(["alloc", "alloc", "set"]),
        "b_code": rng.choice(["set", "set", "input"]),
        "api_a": rng.choice(["deferred", "deferred", "delegate"]),
        "api_b": rng.choice(["deferred", "deferred", "delegate"]),
        "get_a": rng.choice(["eager", "eager", "lazy"]),
        "get_b": rng.choice(["eager", "eager", "lazy"]),
        "code": "%d-%s" % (rng.randint(1, 999), rng.choice(["alpha-beta", "purple-sausages", "x-y-z"])),
    }
    cfg.update(spec.get("cfg_over", {}))
    if spec.get("dilate"):
        cfg["dilation"] = True
        cfg["api_a"] = cfg["api_b"] = "deferred"     # only the Deferred-mode wormhole has dilate()
    if kind == "perm":
        n = len(spec["perm"]) - 1
        cfg["plan_a"] = make_plan(rng, "A", n, gates=("any",))
        cfg["plan_b"] = make_plan(rng, "B", 2)
        cfg["api_b"] = "delegate"
    else:
        cfg["plan_a"] = make_plan(rng, "A", rng.randint(spec.get("min_msgs", 0), max_msgs), max_size=max_size)
        cfg["plan_b"] = make_plan(rng, "B", rng.randint(spec.get("min_msgs", 0), max_msgs), max_size=max_size)
    if spec.get("huge"):
        # one very large message (the documentation speaks of ~20 kB, the API sets no limit)
        who = "plan_" + rng.choice("ab")
        pl = list(cfg[who])
        i = rng.randrange(len(pl)) if pl else 0
        body = b"HUGE:%d:" % i + rng.randbytes(spec["huge"])
        if pl:
            pl[i] = (body, pl[i][1])
        else:
            pl = [(body, "any")]
        cfg[who] = pl
    drv = TwoParty(world, cfg)
    if kind == "perm":
        world.adversary = HoldPermute(world, lambda: drv.b.w._boss._side, len(spec["perm"]), spec["perm"])
        strat = "random"
    else:
        pd = rng.choice([0.0, 0.15, 0.3])
        if adversary:
            world.adversary = ReorderDup(world, p_dup=pd, reorder=(adversary != "dup-only"))
        strat = rng.choice(STRATS)
    sch = Scheduler(world, drv, strategy=strat, chunking=rng.choice(["whole", "mixed"]),
                    p_advance=rng.choice([0.0, 0.0, 0.02]))
    sch.advance_ok = drv.both_connected_once
    if kind == "random":
        nd = rng.choice(spec.get("ndrops", [0, 1, 1, 2, 3, 4]))
        for _ in range(nd):
            who = rng.choice("AB")
            how = rng.choice(spec.get("drop_kinds", ["cut", "cut", "cut", "blackhole", "server-close"]))
            sch.faults.append((rng.randint(5, 220), (lambda who=who, how=how: drv.drop(who, how)), "%s %s" % (how, who)))
        sch.faults.sort(key=lambda f: f[0])
    elif kind == "sweep":
        for (k, who) in [(spec["drop_at"], spec["who"])] + [tuple(x) for x in spec.get("more_drops", [])]:
            how = spec.get("how", "cut")
            sch.faults.append((k, (lambda who=who, how=how: drv.drop(who, how)), "%s %s" % (how, who)))
        sch.faults.sort(key=lambda f: f[0])
    return world, drv, sch, cfg


