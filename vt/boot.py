"""Imported first in every worker: installs the os.urandom dispatcher *before* anything binds
os.urandom as a default argument (spake2 does), puts the Noise stand-in and /repo/src on the
path, and selects the Twisted flavour of txaio."""
import os
import sys

HERE = os.path.dirname(os.path.abspath(__file__))
VERIF = os.path.dirname(HERE)
REPO_SRC = os.environ.get("VT_REPO_SRC", "/repo/src")

_real_urandom = os.urandom
_drbg = [None]


def _urandom(n):
    g = _drbg[0]
    if g is None:
        return _real_urandom(n)
    return g(n)


if getattr(os.urandom, "__name__", "") != "_urandom":
    os.urandom = _urandom


def set_drbg(f):
    _drbg[0] = f


# the working tree under test comes first, then the Noise stand-in
for p in (os.path.join(HERE, "shim"), REPO_SRC):
    if p in sys.path:
        sys.path.remove(p)
    sys.path.insert(0, p)

os.environ.setdefault("MAGIC_WORMHOLE_VERIF", "1")

import txaio  # noqa: E402
txaio.use_twisted()

# keep Twisted from printing every logged error to stderr; observers added later still see them
from twisted.logger import globalLogBeginner  # noqa: E402
try:
    globalLogBeginner.beginLoggingTo([lambda e: None], redirectStandardIO=False, discardBuffer=True)
except Exception:
    pass
