"""vt: runtime-monitoring harness for magic-wormhole (see /verif/DESIGN.md)."""
