"""setup_cmd: byte-compile, SimNet-vs-real-reactor conformance, Noise stand-in gate.

Micro-scenarios are run on SimNet (several seeds) and on the real reactor over 127.0.0.1; the
normalised callback sequences must agree.  If they do not, every check would be deciding
properties on a kernel that does not behave like Twisted's, so this exits non-zero.
"""
from . import boot  # noqa: F401
import compileall
import os
import random
import subprocess
import sys

from twisted.internet import protocol, defer, error
from twisted.internet.endpoints import TCP4ClientEndpoint
from zope.interface import implementer
from twisted.internet.interfaces import IPushProducer, IPullProducer

HERE = os.path.dirname(os.path.abspath(__file__))
VERIF = os.path.dirname(HERE)


class Rec(protocol.Protocol):
    """protocol whose behaviour is given by a dict of callables; logs callbacks"""

    def __init__(self, name, log, beh, done):
        self.name, self.log, self.beh, self.done = name, log, beh, done
        self.rx = 0

    def connectionMade(self):
        self.log.append((self.name, "made"))
        if "made" in self.beh:
            self.beh["made"](self)

    def dataReceived(self, data):
        self.rx += len(data)
        if "data" in self.beh:
            self.beh["data"](self, data)

    def connectionLost(self, reason):
        self.log.append((self.name, "rx", self.rx))
        self.log.append((self.name, "lost", reason.type.__name__))
        self.done.callback(None)


@implementer(IPullProducer)
class Pull:
    def __init__(self, proto, n):
        self.p, self.n = proto, n

    def resumeProducing(self):
        self.p.log.append((self.p.name, "resume"))
        if self.n:
            self.n -= 1
            self.p.transport.write(b"x" * 1000)
        else:
            self.p.transport.unregisterProducer()
            self.p.transport.loseConnection()

    def stopProducing(self):
        self.p.log.append((self.p.name, "stop"))


@implementer(IPushProducer)
class Push:
    def __init__(self, proto):
        self.p = proto
        self.resumed = False

    def pauseProducing(self):
        self.p.log.append((self.p.name, "pause"))

    def resumeProducing(self):
        if not self.resumed:
            self.resumed = True
            self.p.log.append((self.p.name, "resume"))
            self.p.transport.unregisterProducer()
            self.p.transport.loseConnection()

    def stopProducing(self):
        self.p.log.append((self.p.name, "stop"))


def sc_echo_close():
    def cdata(p, d):
        if p.rx >= 5:
            p.transport.loseConnection()
    return ({"made": lambda p: p.transport.write(b"hello"), "data": cdata},
            {"data": lambda p, d: p.transport.write(d)})


def sc_pull_producer():
    def made(p):
        p.log.append((p.name, "reg-start"))
        p.transport.registerProducer(Pull(p, 3), False)
        p.log.append((p.name, "reg-end"))
    return ({"made": made}, {})


def sc_push_pause():
    def made(p):
        p.transport.registerProducer(Push(p), True)
        p.log.append((p.name, "write-start"))
        p.transport.write(b"y" * 200000)
        p.log.append((p.name, "write-end"))
    return ({"made": made}, {})


def sc_flush_then_close():
    def made(p):
        p.transport.write(b"z" * 100000)
        p.transport.loseConnection()
        p.log.append((p.name, "lose-returned"))
    return ({"made": made}, {})


def sc_write_after_lose():
    def made(p):
        p.transport.write(b"a" * 10)
        p.transport.loseConnection()
        p.transport.write(b"late!")
        p.transport.loseConnection()
    return ({"made": made}, {})


def sc_abort():
    def made(p):
        p.transport.write(b"q" * 50)
        p.transport.abortConnection()
        p.log.append((p.name, "abort-returned"))
    return ({"made": made}, {"_norx": True, "_noreason": True})


def sc_exception_in_data():
    def sdata(p, d):
        if p.rx >= 7:
            raise ValueError("boom")
    return ({"made": lambda p: p.transport.write(b"trigger")}, {"data": sdata})


def sc_server_closes_first():
    return ({"made": lambda p: p.transport.write(b"hi")},
            {"data": lambda p, d: p.rx >= 2 and (p.transport.write(b"bye"), p.transport.loseConnection())})


def sc_unregister_then_close_pending():
    # loseConnection with a registered producer does not close until it unregisters
    def made(p):
        prod = Push(p)
        p.transport.registerProducer(prod, True)
        p.transport.write(b"k" * 10)
        p.transport.loseConnection()
        p.log.append((p.name, "lose-returned"))
    return ({"made": made}, {})


SCENARIOS = [sc_echo_close, sc_pull_producer, sc_push_pause, sc_flush_then_close,
             sc_write_after_lose, sc_abort, sc_exception_in_data, sc_server_closes_first,
             sc_unregister_then_close_pending]


def normalise(log, sbeh):
    out = {"c": [], "s": []}
    for e in log:
        who = e[0]
        e = tuple(e[1:])
        if who == "s" and sbeh.get("_norx") and e[0] == "rx":
            continue
        if who == "s" and sbeh.get("_noreason") and e[0] == "lost":
            e = ("lost",)
        if e[0] == "lost" and e[-1] in ("ConnectionLost", "ConnectionDone") and who == "s":
            e = ("lost", "peer-gone")
        out[who].append(e)
    return out


def run_pair(reactor, port_getter, sc, drive):
    log = []
    cbeh, sbeh = sc()
    dc, ds = defer.Deferred(), defer.Deferred()
    sf = protocol.Factory()
    sf.buildProtocol = lambda addr: Rec("s", log, sbeh, ds)
    port = reactor.listenTCP(0, sf, interface="127.0.0.1")
    cf = protocol.ClientFactory()
    cf.buildProtocol = lambda addr: Rec("c", log, cbeh, dc)
    reactor.connectTCP("127.0.0.1", port_getter(port), cf)
    d = defer.gatherResults([dc, ds])
    d.addBoth(lambda r: (port.stopListening(), r)[1])
    drive(d)
    return log, sbeh


def sim_run(sc, seed):
    from .simnet import SimReactor
    from twisted.python import log as tlog
    r = SimReactor(random.Random(seed))
    rng = random.Random(seed + 1)
    # swallow the deliberate ValueError log
    errs = []
    obs = lambda ev: errs.append(ev) if ev.get("isError") else None
    tlog.addObserver(obs)

    def drive(d):
        for _ in range(20000):
            acts = r.actions()
            if r.due():
                acts.append(("timers", ("timers",)))
            if not acts:
                if not r.advance_to_next():
                    break
                continue
            a = rng.choice(acts)
            if a[0] == "timers":
                r.run_due_batch()
            elif a[0] == "data":
                r.do(a, rng.choice([None, 1, 7, 1000]))
            else:
                r.do(a)
    try:
        log, sbeh = run_pair(r, lambda p: p.port, sc, drive)
        return normalise(log, sbeh)
    finally:
        tlog.removeObserver(obs)


def real_run_all():
    from twisted.internet import reactor
    from twisted.python import log as tlog
    results = {}
    errs = []
    tlog.addObserver(lambda ev: errs.append(ev) if ev.get("isError") else None)

    @defer.inlineCallbacks
    def go():
        for sc in SCENARIOS:
            box = []

            def drive(d):
                box.append(d)
            res_holder = {}
            log, sbeh = run_pair(reactor, lambda p: p.getHost().port, sc, drive)
            d = box[0]
            d.addTimeout(5, reactor)
            try:
                yield d
            except Exception as e:  # pragma: no cover
                res_holder["err"] = repr(e)
            results[sc.__name__] = (normalise(log, sbeh), res_holder)
        # connect failures
        cf = protocol.ClientFactory()
        fails = []
        cf.clientConnectionFailed = lambda c, reason: fails.append(reason.type.__name__)
        cf.buildProtocol = lambda addr: None
        p = reactor.listenTCP(0, protocol.Factory(), interface="127.0.0.1")
        portnum = p.getHost().port
        yield p.stopListening()
        reactor.connectTCP("127.0.0.1", portnum, cf)
        ep = TCP4ClientEndpoint(reactor, "127.0.0.1", portnum)
        d = ep.connect(protocol.Factory.forProtocol(protocol.Protocol))
        d.cancel()
        try:
            yield d
        except Exception as e:
            fails.append(type(e).__name__)
        dd = defer.Deferred()
        reactor.callLater(0.3, dd.callback, None)
        yield dd
        results["_fails"] = sorted(fails)
        # a port number that is no port: an IP-literal endpoint raises OverflowError out of a timed call (logged by the
        # reactor) and the attempt stays pending; HostnameEndpoint cuts it to 16 bits / resolves nothing for a negative one
        n_err = len(errs)
        bp = []
        TCP4ClientEndpoint(reactor, "127.0.0.1", 70000).connect(protocol.Factory.forProtocol(protocol.Protocol)).addBoth(lambda r_: bp.append("literal-fired"))
        from twisted.internet.endpoints import HostnameEndpoint
        HostnameEndpoint(reactor, "127.0.0.1", -1).connect(protocol.Factory.forProtocol(protocol.Protocol)).addBoth(
            lambda r_: bp.append("hostname-negative:" + (r_.type.__name__ if hasattr(r_, "type") else "connected")))
        dd2 = defer.Deferred()
        reactor.callLater(0.5, dd2.callback, None)
        yield dd2
        overflow = [e for e in errs[n_err:] if e.get("failure") is not None and e["failure"].type is OverflowError]
        results["_badport"] = sorted(bp) + ["overflow-logged:%d" % min(1, len(overflow))]
        reactor.stop()

    reactor.callWhenRunning(go)
    reactor.run()
    return results


def sim_fails():
    from .simnet import SimReactor
    r = SimReactor(random.Random(0))
    cf = protocol.ClientFactory()
    fails = []
    cf.clientConnectionFailed = lambda c, reason: fails.append(reason.type.__name__)
    cf.buildProtocol = lambda addr: None
    r.connectTCP("127.0.0.1", 5, cf)
    ep = TCP4ClientEndpoint(r, "127.0.0.1", 5)
    d = ep.connect(protocol.Factory.forProtocol(protocol.Protocol))
    d.cancel()
    d.addErrback(lambda f: fails.append(f.type.__name__))
    for _ in range(50):
        acts = r.actions()
        if not acts:
            break
        r.do(acts[0])
    return sorted(fails)


def sim_badport():
    from .simnet import SimReactor
    from twisted.internet.endpoints import HostnameEndpoint
    from twisted.python import log as tlog
    errs = []
    obs = lambda ev: errs.append(ev) if ev.get("isError") else None
    tlog.addObserver(obs)
    try:
        r = SimReactor(random.Random(0))
        bp = []
        TCP4ClientEndpoint(r, "127.0.0.1", 70000).connect(protocol.Factory.forProtocol(protocol.Protocol)).addBoth(lambda r_: bp.append("literal-fired"))
        HostnameEndpoint(r, "127.0.0.1", -1).connect(protocol.Factory.forProtocol(protocol.Protocol)).addBoth(
            lambda r_: bp.append("hostname-negative:" + (r_.type.__name__ if hasattr(r_, "type") else "connected")))
        for _ in range(200):
            acts = r.actions()
            if acts:
                r.do(acts[0])
            elif r.due():
                r.run_due_batch()
            else:
                nt = r.next_timer()
                if nt is None or nt > 0.5:
                    break
                r.advance_to_next()
    finally:
        tlog.removeObserver(obs)
    overflow = [e for e in errs if e.get("failure") is not None and e["failure"].type is OverflowError]
    return sorted(bp) + ["overflow-logged:%d" % min(1, len(overflow))]


def conformance():
    # the real run mutates logs until each scenario's deferred fires; normalise afterwards
    real = {}
    from twisted.internet import reactor  # noqa: F401
    raw = real_run_all()
    bad = []
    for sc in SCENARIOS:
        log, holder = raw[sc.__name__]
        if holder.get("err"):
            bad.append("%s: real reactor run failed: %s" % (sc.__name__, holder["err"]))
            continue
        real[sc.__name__] = log
    for sc in SCENARIOS:
        if sc.__name__ not in real:
            continue
        for seed in range(12):
            sim = sim_run(sc, seed)
            if sim != real[sc.__name__]:
                bad.append("%s seed %d:\n   sim =%r\n   real=%r" % (sc.__name__, seed, sim, real[sc.__name__]))
                break
    sf = sim_fails()
    if sf != raw["_fails"]:
        bad.append("connect failures: sim=%r real=%r" % (sf, raw["_fails"]))
    sb = sim_badport()
    if sb != raw["_badport"]:
        bad.append("port numbers that are no ports: sim=%r real=%r" % (sb, raw["_badport"]))
    return bad


def noise_gate():
    """the repository's own Noise-dependent tests (skipped here without noiseprotocol) must
    pass against the stand-in"""
    env = dict(os.environ)
    env["PYTHONPATH"] = os.path.join(HERE, "shim") + os.pathsep + env.get("PYTHONPATH", "")
    tests = ["src/wormhole/test/dilate/test_record.py", "src/wormhole/test/dilate/test_full.py"]
    p = subprocess.run([sys.executable, "-m", "pytest", "-q", "-p", "no:cacheprovider", "-x",
                        "--timeout=300"] + tests, cwd="/repo", env=env, capture_output=True, text=True)
    tail = (p.stdout + p.stderr)[-600:]
    return p.returncode == 0 and "skipped" not in tail.splitlines()[-1], tail


def main():
    ok = compileall.compile_dir(HERE, quiet=1)
    if not ok:
        print("selftest: byte-compile failed")
        return 1
    bad = conformance()
    for b in bad:
        print("CONFORMANCE MISMATCH", b)
    if bad:
        return 1
    print("selftest: SimNet conforms to the real reactor on %d micro-scenarios x 12 seeds" % len(SCENARIOS))
    if "--no-noise" not in sys.argv:
        ok, tail = noise_gate()
        if not ok:
            print("selftest: Noise stand-in gate failed:\n" + tail)
            return 1
        print("selftest: repository Noise tests pass against the stand-in:", tail.strip().splitlines()[-1])
    return 0


if __name__ == "__main__":
    sys.exit(main())
