"""Application-boundary recorders: every API call and every event, with logical time."""
from wormhole import wormhole as wmod
from wormhole.errors import WormholeError

from .env import URL


class AppBug(Exception):
    pass


class WApp:
    """Drives one wormhole through the Deferred or the delegate API and records what the
    application sees.  ev = [(step, kind, value)], kinds:
       welcome code key verifier versions msg closed   and  <kind>-err (Deferred failures)
    """

    def __init__(self, world, name, appid="vt.app", api="deferred", versions=None,
                 dilation=False, eager_msgs=True, subscribe=True, url=URL):
        self.world = world
        self.name = name
        self.api = api
        self.ev = []
        self.order = []           # every observation in firing order (kinds; '+' marks chained gets)
        self.sent = []
        self.calls = []
        self.close_results = []       # one entry per fired close() Deferred / wormhole_closed
        self.close_calls = 0
        self.pending_gets = 0
        self.get_results = []         # results of extra get_* calls: (step, what, ok|errtype)
        kw = dict(versions=versions or {})
        if dilation:
            kw["dilation"] = True
        if api == "delegate":
            # one delegate in four is also a container of what it has collected - and empty (false) when handed over
            import zlib
            self.falsy_delegate = zlib.crc32(("%s:%s" % (getattr(world, "seed", 0), name)).encode()) % 4 == 0
            kw["delegate"] = self
        self.statuses = 0
        self.status_hook = None      # optional: called with each status object (an application that acts on status changes)

        def on_status(st):
            self.statuses += 1
            if self.status_hook is not None:
                self.status_hook(st)
        kw["on_status_update"] = on_status
        self.w = wmod.create(appid, url, world.reactor, **kw)
        self.binputs = []         # Boss inputs in processing order: (step, old_state, input)
        self.inbound = []         # server messages in the order the client processed them

        def tracer(old_state, input, new_state):
            self.binputs.append((world.step, old_state, input))
            return None
        try:
            self.w._boss.set_trace(tracer)
            self.w._boss._RC._debug_record_inbound_f = lambda msg: self.inbound.append((world.step, msg))
        except Exception:
            pass
        if api == "deferred" and subscribe:
            w = self.w
            w.get_welcome().addCallbacks(lambda v: self._ev("welcome", v), lambda f: self._err("welcome", f))
            w.get_code().addCallbacks(lambda v: self._ev("code", v), lambda f: self._err("code", f))
            w.get_unverified_key().addCallbacks(lambda v: (self._derive_in_key_callback(), self._ev("key", v))[1], lambda f: self._err("key", f))
            w.get_verifier().addCallbacks(lambda v: self._ev("verifier", v), lambda f: self._err("verifier", f))
            w.get_versions().addCallbacks(lambda v: self._ev("versions", v), lambda f: self._err("versions", f))
            if eager_msgs:
                self._next_msg()

    falsy_delegate = False

    def __len__(self):
        return 0 if self.falsy_delegate else 1

    # ---- recording
    def _ev(self, kind, value):
        self.ev.append((self.world.step, kind, value))
        self.order.append(kind)
        hook = getattr(self, "on_event", None)
        if hook is not None:
            hook(kind)          # an application that reacts at once, from inside the notification
        bug = getattr(self, "raise_on", None)
        if bug and self.api == "delegate" and kind == bug[0]:
            bug[1] -= 1
            if bug[1] <= 0:
                # an application bug: the delegate's callback raises (once)
                self.raise_on = None
                self.raised = getattr(self, "raised", 0) + 1
                raise AppBug("the delegate's %s callback raised" % kind)

    def chain_gets_from_key_callback(self, which=("verifier", "versions", "code")):
        """an application that asks for the later events from inside the callback of an earlier one (the
        results are only recorded in self.order, with a '+' suffix)"""
        w = self.w

        def note(kind):
            return lambda v: (self.order.append(kind + "+"), v)[1]

        def on_key(k):
            self.order.append("key+")
            for what in which:
                getattr(w, "get_" + what)().addCallbacks(note(what), lambda f: None)
            return k
        w.get_unverified_key().addCallbacks(on_key, lambda f: None)

    def _err(self, kind, f):
        self.ev.append((self.world.step, kind + "-err", f.type.__name__))

    def _next_msg(self):
        self.pending_gets += 1
        self.w.get_message().addCallbacks(self._rx, self._rx_err)

    def _rx(self, m):
        self.pending_gets -= 1
        self._ev("msg", m)
        self._next_msg()

    def _rx_err(self, f):
        self.pending_gets -= 1
        self._err("msg", f)

    def get_one_message(self):
        """lazy mode: a single get_message()"""
        self.pending_gets += 1
        d0 = self.w.get_message()
        rec = [d0, False]

        def ok(m):
            self.pending_gets -= 1
            if rec in self.open_gets:
                self.open_gets.remove(rec)
            if getattr(self, "cancel_in_callback", 0) > 0 and any(not r_[1] for r_ in self.open_gets):
                # "this record says nothing more follows": a later read that is still outstanding is cancelled from
                # inside the callback of an earlier one
                self.cancel_in_callback -= 1
                self.cancelled_in_callback = getattr(self, "cancelled_in_callback", 0) + 1
                self.give_up_one_get()
            self._ev("msg", m)

        def bad(f):
            if rec in self.open_gets:
                self.open_gets.remove(rec)
            if rec[1]:
                # we gave up waiting ourselves (a timeout): not an event of the wormhole
                self.pending_gets -= 1
                return None
            return self._rx_err(f)
        if not hasattr(self, "open_gets"):
            self.open_gets = []
        self.open_gets.append(rec)
        d0.addCallbacks(ok, bad)

    def give_up_one_get(self):
        """the application stops waiting for a message it asked for (Deferred.cancel(), as addTimeout() does)"""
        for rec in getattr(self, "open_gets", []):
            if not rec[1]:
                rec[1] = True
                self.cancelled_gets = getattr(self, "cancelled_gets", 0) + 1
                rec[0].cancel()
                return True
        return False

    def extra_get(self, what):
        """an additional get_*() at an arbitrary time; must fire or fail, never hang"""
        idx = len(self.get_results)
        self.get_results.append([self.world.step, what, "pending", None])
        d = getattr(self.w, "get_" + what)()

        def ok(v):
            self.get_results[idx][2] = "ok"
            self.get_results[idx][3] = v

        def bad(f):
            self.get_results[idx][2] = f.type.__name__
        d.addCallbacks(ok, bad)

    # ---- delegate API
    def wormhole_got_welcome(self, welcome):
        self._ev("welcome", welcome)

    def wormhole_got_code(self, code):
        self._ev("code", code)

    def wormhole_got_unverified_key(self, key):
        self._derive_in_key_callback()
        self._ev("key", key)

    def _derive_in_key_callback(self):
        """an application that derives a sub-key as soon as it is told that there is a key"""
        if getattr(self, "derive_on_key", None):
            try:
                self.derived_on_key = ("ok", self.w.derive_key(self.derive_on_key, 32))
            except BaseException as e:
                self.derived_on_key = ("raised", type(e).__name__)

    def wormhole_got_verifier(self, verifier):
        self._ev("verifier", verifier)

    def wormhole_got_versions(self, versions):
        self._ev("versions", versions)

    def wormhole_got_message(self, msg):
        self._ev("msg", msg)

    def wormhole_closed(self, result):
        self._ev("closed", result if isinstance(result, str) else type(result).__name__)
        self.close_results.append(result if isinstance(result, str) else type(result).__name__)
        self.close_raw = result

    # ---- API calls (recorded; exceptions recorded and re-raised to the caller)
    def call(self, name, *a):
        self.calls.append((self.world.step, name) + tuple(
            x if isinstance(x, (str, int, type(None))) else "<%d bytes>" % len(x) for x in a))
        try:
            return getattr(self.w, name)(*a)
        except BaseException as e:
            self.calls.append((self.world.step, name + "!", type(e).__name__))
            raise

    def send(self, payload):
        self.sent.append(payload)
        self.call("send_message", payload)

    def close(self):
        self.close_calls += 1
        self.calls.append((self.world.step, "close"))
        if self.api == "delegate":
            self.w.close()
            return
        d = self.w.close()

        def done(r):
            v = r if isinstance(r, str) else r.type.__name__
            self.close_raw = r if isinstance(r, str) else r.value
            self._ev("closed", v)
            self.close_results.append(v)
        d.addBoth(done)

    # ---- views
    def first(self, kind):
        for (s, k, v) in self.ev:
            if k == kind:
                return v
        return None

    def all(self, kind):
        return [v for (s, k, v) in self.ev if k == kind]

    @property
    def code(self):
        return self.first("code")

    @property
    def msgs(self):
        return self.all("msg")

    @property
    def closed(self):
        return bool(self.close_results)

    def kinds(self):
        return [k for (s, k, v) in self.ev]


def is_wormhole_error(name):
    import wormhole.errors as e
    c = getattr(e, name, None)
    return isinstance(c, type) and issubclass(c, WormholeError)
