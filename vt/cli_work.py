"""Helpers for the CLI properties (C04, C05): real cmd_send.send / cmd_receive.receive on the
simulator, transit stream faults, scripted (lying / malicious) peers built from the library."""
import builtins
import hashlib
import io
import os
import shutil
import stat
import tempfile

from twisted.internet import defer
from twisted.python import failure

from .env import URL, RELAY_HINT
from .transit_work import Result

from wormhole.cli import cmd_send, cmd_receive
from wormhole.cli.cli import Config
from wormhole.timing import DebugTiming

_real_input = builtins.input
ANSWERS = []


def _fake_input(prompt=""):
    return ANSWERS.pop(0) if ANSWERS else "y"


builtins.input = _fake_input


def mkargs(**kw):
    a = Config()
    d = dict(appid=None, relay_url=URL, transit_helper=None, listen=True, tor=False,
             launch_tor=False, tor_control_port=None, code=None, code_length=2, zeromode=False, verify=False,
             hide_progress=True, dump_timing=None, debug_state=None, qr=False, text=None, what=None,
             ignore_unsendable_files=False, output_file=None, accept_file=True, only_text=False, allocate=False)
    d.update(kw)
    for k, v in d.items():
        setattr(a, k, v)
    a.stdout = io.StringIO()
    a.stderr = io.StringIO()
    a.timing = DebugTiming()
    return a


def outcome(res):
    if not res.done:
        return "pending"
    if res.failure is not None:
        return res.failure.type.__name__
    return "success"


def snapshot(root):
    """{relative path: ('dir',) | ('file', size, sha256, mode) | ('link', target)}"""
    out = {}
    for dirpath, dirnames, filenames in os.walk(root, followlinks=False):
        for n in dirnames + filenames:
            p = os.path.join(dirpath, n)
            rel = os.path.relpath(p, root)
            st = os.lstat(p)
            if stat.S_ISLNK(st.st_mode):
                out[rel] = ("link", os.readlink(p))
            elif stat.S_ISDIR(st.st_mode):
                out[rel] = ("dir", stat.S_IMODE(st.st_mode))
            else:
                try:
                    with open(p, "rb") as f:
                        h = hashlib.sha256(f.read()).hexdigest()
                except OSError:
                    h = "unreadable"
                out[rel] = ("file", st.st_size, h, stat.S_IMODE(st.st_mode))
    return out


def force_rmtree(path):
    for dirpath, dirnames, filenames in os.walk(path):
        for n in dirnames + filenames:
            try:
                os.chmod(os.path.join(dirpath, n), 0o700)
            except OSError:
                pass
    shutil.rmtree(path, ignore_errors=True)


class StreamFault:
    """Wire filter factory for transit links.  Finds the start of the record stream in each
    direction (after `ready\\n\\ngo\\n` for the data direction, after `ready\\n\\n` for the ack
    direction) and applies one fault at record-stream offset k:
       ("cut", "data", k) ("flip", "data", k) ("cut", "ack", k) ("flip", "ack", k)
    The fault fires once, on the first link that carries that offset."""

    def __init__(self, world, fault):
        self.world = world
        self.fault = fault
        self.fired = None
        self.data_bytes_before_fault = 0

    def install(self):
        r = self.world.reactor
        orig = r.complete_connect

        def complete_connect(c, refuse=False):
            link = orig(c, refuse)
            if link is not None and link.tags.get("port") != 4000:
                for i in (0, 1):
                    link.dirs[i].filter = _DirFilter(self, link, i)
            return link
        r.complete_connect = complete_connect


class _DirFilter:
    def __init__(self, sf, link, i):
        self.sf, self.link, self.i = sf, link, i
        self.head = bytearray()
        self.role = None
        self.abs = 0              # absolute stream position of the next byte
        self.rec_start = None     # absolute position where the record stream starts
        self.gaveup = False
        self.dead = False

    def __call__(self, chunk):
        if chunk is None or self.dead:
            return b""
        a = self.abs
        self.abs += len(chunk)
        if self.rec_start is None and not self.gaveup:
            self.head += chunk
            h = bytes(self.head)
            marker = None
            if b"transit sender " in h:
                self.role, marker = "data", b"ready\n\ngo\n"
            elif b"transit receiver " in h:
                self.role, marker = "ack", b"ready\n\n"
            if marker is not None and marker in h:
                self.rec_start = h.index(marker) + len(marker)
                self.head = bytearray()
            elif len(h) > 3000:
                self.gaveup = True
        fault = self.sf.fault
        if fault is not None and fault[0] in ("replace", "swap", "dupdrop") and self.rec_start is not None and self.role == fault[1]:
            # record-level manipulation: re-frame the record stream
            if a < self.rec_start:
                pre, rec = chunk[:self.rec_start - a], chunk[self.rec_start - a:]
            else:
                pre, rec = b"", chunk
            return pre + self._frames(rec)
        if fault is None or self.rec_start is None or self.role != fault[1] or self.sf.fired is not None:
            return chunk
        kind, where, k = fault
        pos = self.rec_start + k
        if not (a <= pos < a + len(chunk)):
            return chunk
        self.sf.fired = self
        self.sf.fired_at = self.sf.world.step
        if kind == "flip":
            b = bytearray(chunk)
            b[pos - a] ^= 1 << (k % 8)
            return bytes(b)
        # cut: the bytes before k still arrive, then the sending side is gone
        self.dead = True
        link, i = self.link, self.i
        r = self.sf.world.reactor

        def do_cut():
            from twisted.internet import error
            link.dirs[i].fin = True
            other = link.dirs[1 - i]
            other.blackhole = True
            other.wire.clear()
            sender_end = link.ends[i]
            if sender_end.connected:
                sender_end.outbuf.clear()
                sender_end._connection_lost(failure.Failure(error.ConnectionLost()))
        r.callLater(0, do_cut)
        return chunk[:pos - a]


def _frames(self, data):
    """replace frame j by a copy of frame j-1 / swap frames j and j+1 / send frame j twice and drop
    frame j+1 (all keep the byte count when the frames have equal size)"""
    from .transit_work import split_frames
    kind, where, j = self.sf.fault
    self.rbuf = getattr(self, "rbuf", bytearray())
    self.rbuf += data
    frames, rest = split_frames(bytes(self.rbuf))
    self.rbuf = bytearray(rest)
    out = bytearray()
    for f in frames:
        i = self.findex = getattr(self, "findex", -1) + 1
        prev = getattr(self, "prev", None)
        held = getattr(self, "held", None)
        if self.sf.fired is None or self.sf.fired is self:
            if kind == "replace" and i == j and prev is not None and len(prev) == len(f):
                self.sf.fired = self
                out += prev
                self.prev = f
                continue
            if kind == "swap" and i == j:
                self.held = f
                self.prev = f
                continue
            if kind == "swap" and i == j + 1 and held is not None:
                self.sf.fired = self
                out += f + held
                self.held = None
                self.prev = f
                continue
            if kind == "dupdrop" and i == j:
                self.sf.fired = self
                out += f + f
                self.prev = f
                continue
            if kind == "dupdrop" and i == j + 1 and self.sf.fired is self and len(f) == len(prev or b""):
                self.prev = f
                continue
        out += f
        self.prev = f
    return bytes(out)


_DirFilter._frames = _frames


def make_tree(rng, root, kind, unsendable=False):
    """create the thing to send; returns (what, description); with `unsendable` a directory tree also gets
    1-3 dangling symbolic links (entries `wormhole send --ignore-unsendable-files` has to skip)"""
    os.makedirs(root, exist_ok=True)
    if kind == "file":
        name = rng.choice(["f.bin", "data file.txt", "ünï-cødé.dat", "-dash", ".hidden", "a'b\"c", "x" * 60])
        size = rng.choice([0, 1, 2, 16383, 16384, 16385, 32767, 32768, 32769, 65535, 65536, 100000,
                           rng.randint(0, 70000), rng.randint(0, 1000000) if rng.random() < 0.15 else 5])
        p = os.path.join(root, name)
        with open(p, "wb") as f:
            f.write(rng.randbytes(size))
        return name, {"kind": "file", "name": name, "size": size}
    name = rng.choice(["dir", "my dir", "ünï", "-d", ".d", "d.tmp"])
    base = os.path.join(root, name)
    os.makedirs(base)
    entries = 0
    dirs = [base]
    for _ in range(rng.randint(0, 12)):
        parent = rng.choice(dirs)
        n = rng.choice(["a", "b c", "-x", ".y", "ü", "sub", "e" * 30, "z.txt", "0"]) + str(rng.randint(0, 99))
        p = os.path.join(parent, n)
        if os.path.exists(p):
            continue
        if rng.random() < 0.35 and len(p) < 200:
            os.makedirs(p)
            dirs.append(p)
        else:
            with open(p, "wb") as f:
                f.write(rng.randbytes(rng.choice([0, 0, 1, 100, 16384, rng.randint(0, 40000)])))
        entries += 1
    hardlinks = 0
    files = [os.path.join(dp_, f_) for dp_, _, fn_ in os.walk(base) for f_ in fn_]
    if files and rng.random() < 0.3:
        # a second name for a file that is already in the tree (a hard link): two entries, one inode
        for i in range(rng.randint(1, 2)):
            p = os.path.join(rng.choice(dirs), "hardlink%d" % i)
            if not os.path.lexists(p):
                os.link(rng.choice(files), p)
                hardlinks += 1
                entries += 1
    skipped = []
    if unsendable:
        for i in range(rng.randint(1, 3)):
            parent = rng.choice(dirs)
            n = rng.choice(["0-dangling", "dangling", "zz-dangling", "A"]) + str(i)
            p = os.path.join(parent, n)
            if not os.path.lexists(p):
                os.symlink(os.path.join(root, "no-such-target-%d" % i), p)
                skipped.append(os.path.relpath(p, base))
    return name, {"kind": "directory", "name": name, "entries": entries, "unsendable": skipped, "hardlinks": hardlinks}


def new_sandbox(prefix):
    return tempfile.mkdtemp(prefix=prefix)
