"""Scheduler: owns every nondeterministic choice of a case (DESIGN.md 2.4)."""
import traceback

from .monitors import MON


class Scheduler:
    """
    sources of actions:
      * network actions from SimReactor.actions()
      * ("timers",)   run the batch of due timers
      * ("advance",)  move virtual time to the next timer (only when nothing else is enabled,
                      or with small probability `p_advance` to model a slow network)
      * adversary actions  world.adversary.actions()
      * application actions driver.actions() -> [(key, fn)]
      * planned faults: list of (step, fn) executed before the action of that step
    """

    def __init__(self, world, driver=None, strategy="random", chunking="mixed",
                 p_advance=0.0, pct_depth=3, est_len=400, tiny_budget=300):
        self.world = world
        self.r = world.reactor
        self.rng = world.sched_rng
        self.driver = driver
        self.strategy = strategy
        self.chunking = chunking
        self.p_advance = p_advance
        self.prio = {}
        self.change_points = set()
        if strategy == "pct":
            self.change_points = {self.rng.randrange(1, max(2, est_len)) for _ in range(pct_depth)}
        self.faults = []          # (step, fn, label)
        self.trace = []           # compact decision log (kind/key) for witnesses
        self.tiny_budget = tiny_budget
        self.hook = None          # called after every step (state probes)
        self.filter = None        # optional predicate(action) -> bool to veto actions
        self.time_limit = None
        self.advance_ok = None    # optional predicate gating the random "slow network" advances

    # ------------------------------------------------------------------
    def enabled(self, drain=False):
        acts = []
        for a in self.r.actions():
            acts.append((a[0], a[1], a))
        if self.r.due():
            acts.append(("timers", ("timers",), None))
        adv = self.world.adversary
        if adv is not None:
            for (key, fn) in adv.actions():
                acts.append(("adv", key, fn))
        if self.driver is not None and not drain:
            for (key, fn) in self.driver.actions():
                acts.append(("app", key, fn))
        elif self.driver is not None and drain and hasattr(self.driver, "drain_actions"):
            for (key, fn) in self.driver.drain_actions():
                acts.append(("app", key, fn))
        if self.filter is not None:
            acts = [a for a in acts if self.filter(a)]
        return acts

    def _chunk(self, t):
        n = len(t.inc.wire)
        if self.chunking == "whole" or n <= 1:
            return None
        if self.chunking == "bytewise-start" and t.inc.delivered < 400:
            # the beginning of every connection (relay answer, prologue, handshake) arrives one byte at a time
            return 1
        x = self.rng.random()
        if x < 0.55:
            return None
        if x < 0.70 and self.tiny_budget > 0:
            self.tiny_budget -= 1
            return 1
        if x < 0.85 and self.tiny_budget > 0:
            self.tiny_budget -= 1
            return self.rng.randint(1, min(n, 8))
        return self.rng.randint(1, n)

    def _pick(self, acts):
        s = self.strategy
        if s == "random":
            return self.rng.choice(acts)
        if s == "pct":
            for a in acts:
                if a[1] not in self.prio:
                    self.prio[a[1]] = self.rng.random()
            best = max(acts, key=lambda a: self.prio[a[1]])
            if self.world.step in self.change_points:
                self.prio[best[1]] = -self.rng.random()
                best = max(acts, key=lambda a: self.prio[a[1]])
            return best
        order = {"netfirst": ("data", "flush", "fin", "connect", "lost", "adv", "timers", "app"),
                 "timersfirst": ("timers", "lost", "data", "flush", "fin", "connect", "adv", "app"),
                 "appfirst": ("app", "timers", "lost", "flush", "data", "fin", "connect", "adv"),
                 }[s]
        # mostly follow the class order, sometimes random
        if self.rng.random() < 0.25:
            return self.rng.choice(acts)
        for kind in order:
            c = [a for a in acts if a[0] == kind]
            if c:
                return self.rng.choice(c)
        return self.rng.choice(acts)

    def execute(self, a):
        kind = a[0]
        self.trace.append((kind,) + tuple(a[1][1:]) if isinstance(a[1], tuple) else (kind,))
        try:
            if kind == "timers":
                self.r.run_due_batch()
            elif kind == "advance":
                self.r.advance_to_next()
            elif kind in ("adv", "app"):
                a[2]()
            elif kind == "data":
                self.r.do(a[2], self._chunk(a[2][2]))
            else:
                self.r.do(a[2])
        except BaseException as e:   # an exception that would have reached the reactor
            self.world.escapes.append((self.world.step, kind, repr(a[1]), type(e).__name__,
                                       repr(e)[:300], traceback.format_exc()[-1500:]))

    def step(self, drain=False):
        """one scheduler step; returns False when nothing at all can happen"""
        w = self.world
        while self.faults and self.faults[0][0] <= w.step and not drain:
            _, fn, label = self.faults.pop(0)
            self.trace.append(("fault", label))
            try:
                fn()
            except BaseException as e:
                w.escapes.append((w.step, "fault", label, type(e).__name__, repr(e)[:300],
                                  traceback.format_exc()[-1500:]))
        acts = self.enabled(drain)
        can_advance = self.r.next_timer() is not None and not self.r.due()
        if self.time_limit is not None and can_advance and self.r.next_timer() > self.time_limit:
            can_advance = False
        if not acts:
            if not can_advance:
                return False
            a = ("advance", ("advance",), None)
        elif (can_advance and not drain and self.p_advance and self.rng.random() < self.p_advance
              and (self.advance_ok is None or self.advance_ok())):
            a = ("advance", ("advance",), None)
        elif drain:
            a = self.rng.choice(acts)
        else:
            a = self._pick(acts)
        self.execute(a)
        w.step += 1
        if self.hook is not None:
            self.hook()
        return True

    def run(self, max_steps, until=None):
        """chaos phase"""
        n = 0
        while n < max_steps:
            if until is not None and until():
                return "until"
            if not self.step():
                return "quiescent"
            n += 1
        return "steps"

    def drain(self, virtual_seconds=300.0, max_steps=20000, until=None):
        """fault-free fair phase: uniform choice, time advances only when idle, bounded in
        virtual time.  Returns 'until' | 'time' | 'quiescent' | 'steps'."""
        self.faults = []
        self.time_limit = self.r.seconds() + virtual_seconds
        n = 0
        try:
            while n < max_steps:
                if until is not None and until():
                    return "until"
                if not self.step(drain=True):
                    if self.r.next_timer() is not None:
                        return "time"
                    return "quiescent"
                n += 1
            return "steps"
        finally:
            self.time_limit = None
