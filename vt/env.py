"""World: SimReactor + the real mailbox server (optionally adversarial) + optional transit
relay, with every harness-side substitution of DESIGN.md 2.7 installed and re-pointed at it."""
from . import boot  # noqa: F401  (must be first)
import functools
import gc
import json
import random
import types

import txaio
from twisted.application import internet as real_internet
from twisted.internet import protocol

from .simnet import SimReactor, unwrap
from .monitors import MON

import wormhole._rendezvous as rz
from wormhole import ipaddrs, transit
from wormhole_mailbox_server.database import create_channel_db, create_usage_db
from wormhole_mailbox_server.server import make_server
from wormhole_mailbox_server import server_websocket

MAILBOX_PORT = 4000
RELAY_PORT = 4001
MAILBOX_HOST = "mailbox.sim"
RELAY_HOST = "relay.sim"
URL = "ws://%s:%d/v1" % (MAILBOX_HOST, MAILBOX_PORT)
RELAY_HINT = "tcp:%s:%d" % (RELAY_HOST, RELAY_PORT)
RELAY2_HOST, RELAY2_PORT = "relay2.sim", 4002
RELAY2_HINT = "tcp:%s:%d" % (RELAY2_HOST, RELAY2_PORT)

CURRENT = [None]


def _current_reactor():
    w = CURRENT[0]
    if w is None:
        raise RuntimeError("no current World")
    return w.reactor


# --- one-time patches whose bodies consult CURRENT ---------------------------------------
def _install_once():
    if getattr(_install_once, "done", False):
        return
    _install_once.done = True
    MON.install()

    class _CS(real_internet.ClientService):
        def __init__(self, endpoint, factory, retryPolicy=None, clock=None, prepareConnection=None):
            real_internet.ClientService.__init__(
                self, endpoint, factory, retryPolicy=retryPolicy,
                clock=_current_reactor(), prepareConnection=prepareConnection)
    rz.internet = types.SimpleNamespace(ClientService=_CS)
    transit.Connection.callLater = lambda self, period, func: _current_reactor().callLater(period, func)
    ipaddrs.find_addresses = lambda: list(CURRENT[0].local_addresses)
    transit.allocate_tcp_port = lambda: _current_reactor().alloc_port()
    # twisted's Cooperator stops a tick after 10 ms of *wall clock*; make a tick a fixed number of
    # iterations so that runs are reproducible (any count is a behaviour the real one can show)
    import wormhole.wormhole as _ww
    from twisted.internet.task import Cooperator as _Coop

    def _det_cooperator(*a, **kw):
        def factory():
            n = [0]

            def pred():
                n[0] += 1
                return n[0] > 3
            return pred
        kw.setdefault("terminationPredicateFactory", factory)
        return _Coop(*a, **kw)
    _ww.Cooperator = _det_cooperator
    # autobahn's factories call random.seed() (OS entropy) in __init__, which would make the
    # ClientService jitter and the frame masks differ from run to run: neutralise the reseed
    import autobahn.websocket.protocol as _awp

    class _RandomProxy:
        def __getattr__(self, name):
            return getattr(random, name)

        def seed(self, *a, **kw):
            if a or kw:
                random.seed(*a, **kw)
    _awp.random = _RandomProxy()
    # the servers stamp messages with wall-clock floats whose repr length varies: use virtual time
    vtime = types.SimpleNamespace(time=lambda: 1700000000.0 + _current_reactor().seconds())
    server_websocket.time = vtime
    import wormhole_mailbox_server.server as _srv
    if hasattr(_srv, "time"):
        _srv.time = vtime
    try:
        import wormhole_transit_relay.transit_server as _ts
        _ts.time = vtime
    except ImportError:
        pass


class AdvServerProtocol(server_websocket.WebSocketServer):
    """The real server protocol; `send` is routed through the World's adversary (if any)."""
    world = None

    def onOpen(self):
        w = self.factory.world
        self.conn_id = w.next_server_conn
        w.next_server_conn += 1
        w.server_conns.append(self)
        self.cmds = []
        if w.welcome_override is not None:
            welcome = dict(w.welcome_override)
            self.send("welcome", welcome=welcome)
            return
        server_websocket.WebSocketServer.onOpen(self)

    def onMessage(self, payload, isBinary):
        try:
            msg = json.loads(payload.decode("utf-8"))
            self.cmds.append(msg)
            self.factory.world.server_cmds.append((self.conn_id, self._side, msg))
        except Exception:
            pass
        return server_websocket.WebSocketServer.onMessage(self, payload, isBinary)

    def handle_bind(self, msg, server_rx):
        if self.factory.world.bridge_appids and "appid" in msg:
            msg = dict(msg, appid="vt.bridged")     # C01 only: let differing appids meet
        return server_websocket.WebSocketServer.handle_bind(self, msg, server_rx)

    def send(self, mtype, **kwargs):
        w = self.factory.world
        if mtype == "error":
            w.server_errors.append((self.conn_id, self._side, kwargs.get("error"),
                                    (kwargs.get("orig") or {}).get("type")))
        adv = w.adversary
        if adv is not None and adv.intercept(self, mtype, kwargs):
            return
        self.real_send(mtype, **kwargs)

    def real_send(self, mtype, **kwargs):
        if self.state != self.STATE_OPEN:
            return
        server_websocket.WebSocketServer.send(self, mtype, **kwargs)


class World:
    def __init__(self, seed, relay=False, mailbox_mode="tcp", welcome_error=None, motd=None):
        _install_once()
        self.seed = seed
        self.rng = random.Random("%s:world" % seed)
        self.sched_rng = random.Random("%s:sched" % seed)
        self.work_rng = random.Random("%s:work" % seed)
        drbg = random.Random("%s:drbg" % seed)
        boot.set_drbg(lambda n: drbg.randbytes(n))
        random.seed("%s:global" % seed)
        self.reactor = SimReactor(random.Random("%s:net" % seed))
        CURRENT[0] = self
        txaio.config.loop = self.reactor
        self.local_addresses = ["127.0.0.1", "10.0.0.1"]
        self.reactor.names[MAILBOX_HOST] = "10.9.9.1"
        self.reactor.names[RELAY_HOST] = "10.9.9.2"
        self.reactor.mode_for_port[MAILBOX_PORT] = mailbox_mode
        MON.reset()
        self.step = 0
        self.escapes = []           # exceptions that escaped a scheduler action / API call
        # mailbox server
        self.db = create_channel_db(":memory:")
        self.usage_db = create_usage_db(":memory:")
        self.server = make_server(self.db, usage_db=self.usage_db, welcome_motd=motd,
                                  signal_error=welcome_error)
        f = server_websocket.WebSocketServerFactory(URL, self.server)
        f.reactor = self.reactor
        f.protocol = AdvServerProtocol
        f.world = self
        self.server_factory = f
        self.adversary = None
        self.welcome_override = None
        self.bridge_appids = False
        self.next_server_conn = 0
        self.server_conns = []
        self.server_cmds = []
        self.server_errors = []
        self.reactor.listenTCP(MAILBOX_PORT, f)
        self.relay = None
        if relay:
            self.start_relay()

    def start_relay(self):
        from wormhole_transit_relay.transit_server import Transit, TransitConnection
        from wormhole_transit_relay.usage import create_usage_tracker
        usage = create_usage_tracker(blur_usage=None, log_file=None, usage_db=None)
        f = protocol.ServerFactory()
        f.protocol = TransitConnection
        f.log_requests = False
        f.transit = Transit(usage, self.reactor.seconds)
        self.relay = f
        self.reactor.listenTCP(RELAY_PORT, f)

    def start_second_relay(self):
        """an independent second transit relay (relay2.sim:4002), e.g. when the two sides are configured differently"""
        from wormhole_transit_relay.transit_server import Transit, TransitConnection
        from wormhole_transit_relay.usage import create_usage_tracker
        usage = create_usage_tracker(blur_usage=None, log_file=None, usage_db=None)
        f = protocol.ServerFactory()
        f.protocol = TransitConnection
        f.log_requests = False
        f.transit = Transit(usage, self.reactor.seconds)
        self.relay2 = f
        self.reactor.names[RELAY2_HOST] = "10.9.9.3"
        self.reactor.listenTCP(RELAY2_PORT, f)

    # ---- helpers over the server's own tables
    def nameplate_claims(self):
        rows = self.db.execute(
            "SELECT n.name AS name, s.side AS side, s.claimed AS claimed FROM nameplates n"
            " JOIN nameplate_sides s ON s.nameplates_id = n.id").fetchall()
        return [(r["name"], r["side"], bool(r["claimed"])) for r in rows]

    def mailbox_sides(self):
        rows = self.db.execute(
            "SELECT mailbox_id, side, opened, mood FROM mailbox_sides").fetchall()
        return [(r["mailbox_id"], r["side"], bool(r["opened"]), r["mood"]) for r in rows]

    def usage_moods(self):
        rows = self.usage_db.execute("SELECT result FROM mailboxes").fetchall()
        return [r["result"] for r in rows]

    def mailbox_links(self):
        return self.reactor.live_links(port=MAILBOX_PORT)

    def finish(self):
        """end of case: collect garbage so 'Unhandled error in Deferred' lands in this case"""
        gc.collect()
        boot.set_drbg(None)
        CURRENT[0] = None


def rc_of(w):
    return w._boss._RC


def client_link(world, w):
    """the live mailbox link whose client end belongs to wormhole w (or None)"""
    rc = rc_of(w)
    for link in world.mailbox_links():
        p = unwrap(link.ends[0].protocol)
        if getattr(p, "_RC", None) is rc:
            return link
    return None
