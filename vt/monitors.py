"""Process-wide monitors: automat transitions / NoTransition, twisted log errors."""
import collections
import automat._core as ac
from twisted.python import log as tlog


class _Mon:
    def __init__(self):
        self.notrans = []                       # (machine, state, input)
        self.cov = collections.Counter()        # (machine, state, input) -> n
        self.errors = []                        # (type name, repr, why)
        self.step = lambda: -1
        self.installed = False

    def reset(self):
        self.notrans = []
        self.cov = collections.Counter()
        self.errors = []

    def install(self):
        if self.installed:
            return
        self.installed = True
        mon = self
        orig = ac.Transitioner.transition

        def names(tr, inp):
            st = tr._state
            sm = getattr(st, "method", None)
            im = getattr(inp, "method", None)
            if sm is None or im is None:
                return None
            q = sm.__qualname__.split(".")
            return (q[0] if len(q) > 1 else "?", sm.__name__, im.__name__)

        def transition(self, inputSymbol):
            k = names(self, inputSymbol)      # before the call: the state the input arrived in
            try:
                r = orig(self, inputSymbol)
            except ac.NoTransition:
                if k is not None:
                    mon.notrans.append(k)
                raise
            if k is not None:
                mon.cov[k] += 1
            return r

        ac.Transitioner.transition = transition

        def obs(ev):
            if ev.get("isError"):
                f = ev.get("failure")
                if f is not None:
                    mon.errors.append((f.type.__name__, repr(f.value)[:300],
                                       str(ev.get("why") or "")[:120], _inner_frame(f)))
                else:
                    mon.errors.append(("log", str(ev.get("message"))[:300], "", ""))
        tlog.addObserver(obs)


def _inner_frame(f):
    """innermost frame of the failure that lies in the wormhole package"""
    try:
        frames = f.frames or []
        for (func, fname, lineno, *_rest) in reversed(frames):
            if "/wormhole/" in fname and "/test/" not in fname:
                return "%s:%s" % (fname.split("/wormhole/")[-1], func)
        if frames:
            func, fname, lineno = frames[-1][:3]
            return "%s:%s" % (fname.split("/")[-1], func)
    except Exception:
        pass
    return ""


MON = _Mon()


def state_of(obj, attr="m"):
    """automat state name of obj (per-instance transitioner lives under the gensym)"""
    try:
        machine = getattr(type(obj), attr)
    except AttributeError:
        return None
    t = getattr(obj, machine._symbol, None)
    if t is None:
        return machine._automaton.initialState.method.__name__
    return t._state.method.__name__
