"""SimReactor: virtual clock + in-memory TCP, mirroring twisted.internet.abstract.FileDescriptor.

Nothing here happens on its own: every delivery, flush, connection completion, timer batch
and fault is an *action* that a scheduler (vt.sched) picks explicitly.  See DESIGN.md 2.2.
"""
from zope.interface import implementer, alsoProvides
from twisted.internet.task import Clock
from twisted.internet import interfaces, address, error, defer, main
from twisted.python import failure, log


class _Dir:
    """bytes in flight in one direction of a link (kernel buffers + network)."""

    def __init__(self):
        self.wire = bytearray()
        self.fin = False          # FIN queued behind the data
        self.blackhole = False    # bytes and FIN vanish silently
        self.swallowed = 0        # bytes accepted from the sender since the direction became a blackhole
        self.filter = None        # MITM: callable(bytes)->bytes applied when bytes enter the wire
        self.total = 0            # bytes that ever entered the wire (before filter)
        self.delivered = 0        # bytes handed to the receiver


@implementer(interfaces.ITransport, interfaces.IConsumer, interfaces.IPushProducer,
             interfaces.ITCPTransport, interfaces.IHalfCloseableDescriptor)
class SimTransport:
    """One end of an in-memory TCP connection (semantics of tcp.Connection)."""

    bufferSize = 2 ** 16

    def __init__(self, net, link, end, host, peer, mode="tcp"):
        self.net = net
        self.link = link
        self.end = end            # 0 = connecting side, 1 = accepting side
        self._host = host
        self._peer = peer
        self.mode = mode
        self.protocol = None
        self.connector = None
        self.connected = 0
        self.disconnected = 0
        self.disconnecting = 0
        self._writeDisconnecting = False
        self._writeDisconnected = False
        self.outbuf = bytearray()
        self.writing = False
        self.reading = True
        self.producer = None
        self.streamingProducer = False
        self.producerPaused = False
        self.bufferSize = net.default_buffer_size
        self.lose_calls = []      # virtual times of loseConnection()/abortConnection()
        self.tx_log = bytearray()   # first bytes written / received, for handshake oracles
        self.rx_log = bytearray()
        self.rx_total = 0
        self.write_marks = []       # (rx_total at the time of the write, first bytes of the write)
        self.tls_closing = False
        self.lost_reason = None

    # ---- helpers
    @property
    def other(self):
        return self.link.ends[1 - self.end]

    @property
    def out(self):
        return self.link.dirs[self.end]       # direction self -> other

    @property
    def inc(self):
        return self.link.dirs[1 - self.end]   # direction other -> self

    def __repr__(self):
        return "<SimTransport L%d/%d %s>" % (self.link.id, self.end,
                                            type(_unwrap(self.protocol)).__name__)

    # ---- ITransport
    def write(self, data):
        if not isinstance(data, (bytes, bytearray, memoryview)):
            raise TypeError("Data must be bytes")
        if not self.connected or self._writeDisconnected:
            return
        if data:
            if len(self.tx_log) < 600:
                self.tx_log += bytes(data[:600])
            if len(self.write_marks) < 40:
                self.write_marks.append((self.rx_total, bytes(data[:24])))
            self.outbuf += data
            self._maybePauseProducer()
            self.writing = True

    def writeSequence(self, iovec):
        for i in iovec:
            if not isinstance(i, (bytes, bytearray, memoryview)):
                raise TypeError("Data must be bytes")
        if not self.connected or not iovec or self._writeDisconnected:
            return
        for i in iovec:
            self.outbuf += i
        self._maybePauseProducer()
        self.writing = True

    def _maybePauseProducer(self):
        if self.producer is not None and self.streamingProducer:
            if len(self.outbuf) > self.bufferSize:
                self.producerPaused = True
                self.producer.pauseProducing()

    def loseConnection(self, _connDone=None):
        self.lose_calls.append(self.net.seconds())
        self.net.netlog.append(("lose", self.link.id, self.end, self.net.seconds()))
        if self.connected and not self.disconnecting:
            if self._writeDisconnected:
                self.reading = False
                self.writing = False
                self.net._later_lost(self, failure.Failure(error.ConnectionDone()))
            else:
                if self.mode == "tcp":
                    self.reading = False
                self.writing = True
                self.disconnecting = 1

    def abortConnection(self):
        self.lose_calls.append(self.net.seconds())
        self.net.netlog.append(("abort", self.link.id, self.end, self.net.seconds()))
        if self.disconnected or not self.connected:
            return
        self.outbuf.clear()
        self.reading = False
        self.writing = False
        self.disconnecting = 1
        self.net._later_lost(self, failure.Failure(error.ConnectionAborted()))

    def loseWriteConnection(self):
        self._writeDisconnecting = True
        self.writing = True

    def getPeer(self):
        return self._peer

    def getHost(self):
        return self._host

    def setTcpNoDelay(self, enabled):
        pass

    def getTcpNoDelay(self):
        return False

    def setTcpKeepAlive(self, enabled):
        pass

    def getTcpKeepAlive(self):
        return False

    # ---- IConsumer
    def registerProducer(self, producer, streaming):
        if self.producer is not None:
            raise RuntimeError(
                "Cannot register producer %s, because producer %s was never "
                "unregistered." % (producer, self.producer))
        if self.disconnected:
            producer.stopProducing()
        else:
            self.producer = producer
            self.streamingProducer = streaming
            if not streaming:
                producer.resumeProducing()

    def unregisterProducer(self):
        self.producer = None
        if self.connected and self.disconnecting:
            self.writing = True

    # ---- IPushProducer (the reading side)
    def resumeProducing(self):
        if self.connected and not self.disconnecting:
            self.reading = True
        elif self.connected and self.mode == "tls":
            self.reading = True

    def pauseProducing(self):
        self.reading = False

    def stopProducing(self):
        self.loseConnection()

    # ---- used by the net
    def _do_write(self):
        """Mirror of FileDescriptor.doWrite: move user-space buffer into the wire."""
        d = self.out
        room = self.net.wire_capacity - len(d.wire)
        if d.blackhole and self.net.blackhole_sndbuf is not None:
            # nothing is acknowledged any more: the kernel's send buffer fills up and then takes no more
            room = self.net.blackhole_sndbuf - d.swallowed
        if self.outbuf and room > 0:
            chunk = bytes(self.outbuf[:room])
            del self.outbuf[:len(chunk)]
            d.total += len(chunk)
            if d.filter is not None:
                chunk = d.filter(chunk)
            if not d.blackhole:
                d.wire += chunk
            else:
                d.swallowed += len(chunk)
        if not self.outbuf:
            self.writing = False
            if self.producer is not None and (not self.streamingProducer or self.producerPaused):
                self.producerPaused = False
                self.producer.resumeProducing()
            elif self.disconnecting:
                if d.filter is not None:
                    tail = d.filter(None)   # flush MITM state at end of stream
                    if tail and not d.blackhole:
                        d.wire += tail
                if not d.blackhole:
                    d.fin = True
                if self.mode == "tls" and not self.tls_closing:
                    # close_notify sent; wait for the peer's before reporting loss
                    self.tls_closing = True
                else:
                    self._connection_lost(failure.Failure(error.ConnectionDone()))
            elif self._writeDisconnecting:
                self._writeDisconnected = True
                self._writeDisconnecting = False
                if not d.blackhole:
                    d.fin = True
                p = interfaces.IHalfCloseableProtocol(self.protocol, None)
                if p:
                    try:
                        p.writeConnectionLost()
                    except BaseException:
                        log.err()
                        self._connection_lost(failure.Failure())

    def _connection_lost(self, reason):
        """Mirror of tcp.Connection.connectionLost (+ Client's connector notification)."""
        if self.disconnected:
            return
        self.disconnected = 1
        self.connected = 0
        self.lost_reason = reason
        self.net.netlog.append(("lost", self.link.id, self.end, self.net.seconds(),
                                reason.type.__name__))
        if self.producer is not None:
            p, self.producer = self.producer, None
            p.stopProducing()
        self.reading = False
        self.writing = False
        self.outbuf.clear()
        protocol = self.protocol
        try:
            protocol.connectionLost(reason)
        except BaseException:
            log.err()
        if self.connector is not None:
            c, self.connector = self.connector, None
            c.connectionLost(reason)
        self.net._link_maybe_done(self.link)


def _unwrap(p):
    seen = 0
    while p is not None and hasattr(p, "_wrappedProtocol") and seen < 5:
        p = p._wrappedProtocol
        seen += 1
    if p is not None and hasattr(p, "_protocol") and type(p).__name__ == "_ReconnectingProtocolProxy":
        p = p._protocol
    return p


unwrap = _unwrap


class Link:
    def __init__(self, net, lid, mode):
        self.net = net
        self.id = lid
        self.mode = mode
        self.ends = [None, None]
        self.dirs = [_Dir(), _Dir()]    # dirs[0]: end0 -> end1 ; dirs[1]: end1 -> end0
        self.created = net.seconds()
        self.tags = {}                   # free for the harness (e.g. "mailbox", "transit")

    @property
    def live(self):
        return any(e is not None and e.connected for e in self.ends)

    def __repr__(self):
        return "<Link %d %r>" % (self.id, self.tags)


@implementer(interfaces.IListeningPort)
class SimPort:
    def __init__(self, net, port, factory, interface):
        self.net = net
        self.port = port
        self.factory = factory
        self.interface = interface
        self.listening = True
        self.accepted = 0

    def getHost(self):
        return address.IPv4Address("TCP", self.interface or "0.0.0.0", self.port)

    def startListening(self):
        pass

    def stopListening(self):
        if self.listening:
            self.listening = False
            self.net.ports.pop(self.port, None)
            self.net.netlog.append(("unlisten", self.port, self.net.seconds()))
            try:
                self.factory.doStop()
            except BaseException:
                log.err()
        return defer.succeed(None)

    def loseConnection(self):
        return self.stopListening()


@implementer(interfaces.IConnector)
class SimConnector:
    def __init__(self, net, host, port, factory, timeout):
        self.net = net
        self.host = host
        self.port = port
        self.factory = factory
        self.timeout = timeout
        self.state = "connecting"
        self.factoryStarted = 1
        self.timeoutID = None
        self.cid = None
        self.transport = None

    def _cancel_timeout(self):
        if self.timeoutID is not None:
            try:
                self.timeoutID.cancel()
            except Exception:
                pass
            self.timeoutID = None

    def buildProtocol(self, addr):
        self.state = "connected"
        self._cancel_timeout()
        return self.factory.buildProtocol(addr)

    def connectionFailed(self, reason):
        self._cancel_timeout()
        self.transport = None
        self.state = "disconnected"
        if self in self.net.pending:
            self.net.pending.remove(self)
        self.factory.clientConnectionFailed(self, reason)
        if self.state == "disconnected":
            self.factory.doStop()
            self.factoryStarted = 0

    def connectionLost(self, reason):
        self.state = "disconnected"
        self.factory.clientConnectionLost(self, reason)
        if self.state == "disconnected":
            self.factory.doStop()
            self.factoryStarted = 0

    def stopConnecting(self):
        if self.state != "connecting":
            raise error.NotConnectingError("we're not trying to connect")
        self.net.netlog.append(("stopconnecting", self.host, self.port, self.net.seconds()))
        self.state = "disconnected"
        self.connectionFailed(failure.Failure(error.UserError()))

    def disconnect(self):
        if self.state == "connecting":
            self.stopConnecting()
        elif self.state == "connected" and self.transport is not None:
            self.transport.loseConnection()

    def connect(self):
        raise RuntimeError("SimConnector.connect(): reconnecting connectors are not simulated")

    def getDestination(self):
        return address.IPv4Address("TCP", self.host, self.port)


@implementer(interfaces.IHostnameResolver)
class _Resolver:
    def __init__(self, net):
        self.net = net

    def resolveHostName(self, resolutionReceiver, hostName, portNumber=0,
                        addressTypes=None, transportSemantics="TCP"):
        resolutionReceiver.resolutionBegan(None)
        ip = self.net.names.get(hostName, hostName)
        # (getaddrinfo: a negative service number is an error - no address at all; a larger one is cut to 16 bits.
        #  Observed with Twisted's HostnameEndpoint on the real reactor: -1 -> DNSLookupError, 65536 and 2**40 -> port 0)
        if isinstance(portNumber, int) and not isinstance(portNumber, bool):
            if portNumber < 0:
                ip = None
            else:
                portNumber &= 0xFFFF
        if ip is not None:
            resolutionReceiver.addressResolved(address.IPv4Address("TCP", ip, portNumber))
        resolutionReceiver.resolutionComplete()
        return resolutionReceiver


class SimReactor(Clock):
    """IReactorTime + IReactorTCP + pluggable resolver, all under explicit control."""

    def __init__(self, rng):
        Clock.__init__(self)
        self.rng = rng
        self.ports = {}
        self.next_port = 40000
        self.pending = []       # SimConnectors waiting for the scheduler
        self.links = []
        self.next_link = 0
        self.lost_queue = []    # (transport, reason): asynchronous connectionLost to deliver
        self.dials = []         # every connectTCP (host, port, time)
        self.netlog = []
        self.names = {}         # hostname -> ip (None = does not resolve)
        self.unroutable = set()  # hosts/(host,port) whose SYNs vanish
        self.refuse = set()      # hosts/(host,port) that answer RST
        self.default_buffer_size = 2 ** 16
        self.wire_capacity = 2 ** 18
        self.blackhole_sndbuf = None   # None: a blackholed direction accepts without bound; n: only n more bytes
        self.default_mode = "tcp"
        self.mode_for_port = {}
        self.triggers = []
        self.nameResolver = _Resolver(self)
        alsoProvides(self, interfaces.IReactorPluggableNameResolver, interfaces.IReactorTCP)
        self.running = True

    # ---- IReactorCore-ish bits some code touches
    def addSystemEventTrigger(self, phase, eventType, f, *a, **kw):
        t = (phase, eventType, f, a, kw)
        self.triggers.append(t)
        return t

    def removeSystemEventTrigger(self, t):
        if t in self.triggers:
            self.triggers.remove(t)

    def callWhenRunning(self, f, *a, **kw):
        self.callLater(0, f, *a, **kw)

    def callFromThread(self, f, *a, **kw):
        self.callLater(0, f, *a, **kw)

    def stop(self):
        self.running = False

    # ---- IReactorTCP
    def listenTCP(self, port, factory, backlog=50, interface=""):
        if port == 0:
            port = self.alloc_port()
        if port in self.ports:
            raise error.CannotListenError(interface, port, "address in use (sim)")
        p = SimPort(self, port, factory, interface)
        self.ports[port] = p
        self.netlog.append(("listen", port, self.seconds()))
        factory.doStart()
        return p

    def alloc_port(self):
        plan = getattr(self, "port_plan", None)
        while plan:
            p_ = plan.pop(0)       # (a case may say which port numbers the kernel hands out first)
            if p_ not in self.ports:
                return p_
        self.next_port += 1
        while self.next_port in self.ports:
            self.next_port += 1
        return self.next_port

    def connectTCP(self, host, port, factory, timeout=30, bindAddress=None):
        c = SimConnector(self, host, port, factory, timeout)
        c.cid = len(self.dials)
        self.dials.append((host, port, self.seconds()))
        self.netlog.append(("dial", host, port, self.seconds()))
        factory.doStart()
        factory.startedConnecting(c)
        if isinstance(port, int) and not isinstance(port, bool) and not (0 <= port <= 65535):
            # as on the real reactor (tcp.Client: resolveAddress -> doConnect in a timed call): socket.connect_ex() raises
            # OverflowError, the reactor logs it, and the attempt stays pending until its timeout fails it
            def bad_port():
                raise OverflowError("connect_ex(): port must be 0-65535.")
            self.callLater(0, bad_port)
            if timeout is not None:
                def timed_out_():
                    c.timeoutID = None
                    if c.state == "connecting":
                        c.connectionFailed(failure.Failure(error.TimeoutError()))
                c.timeoutID = self.callLater(timeout, timed_out_)
            return c
        if c.state == "connecting":
            self.pending.append(c)
            if timeout is not None:
                def timed_out():
                    c.timeoutID = None
                    if c.state == "connecting":
                        c.connectionFailed(failure.Failure(error.TimeoutError()))
                c.timeoutID = self.callLater(timeout, timed_out)
        return c

    # ---- timers
    def due(self):
        now = self.seconds()
        return [c for c in self.calls if c.getTime() <= now]

    def run_due_batch(self):
        """Run the calls due now; calls they schedule wait for the next batch (as the
        real reactor's runUntilCurrent does)."""
        batch = sorted(self.due(), key=lambda c: c.getTime())
        n = 0
        for c in batch:
            if c in self.calls and not c.cancelled and not c.called:
                self.calls.remove(c)
                c.called = 1
                n += 1
                try:
                    c.func(*c.args, **c.kw)
                except BaseException:
                    log.err()
        return n

    def next_timer(self):
        ts = [c.getTime() for c in self.calls]
        return min(ts) if ts else None

    def advance_to_next(self):
        t = self.next_timer()
        if t is None:
            return False
        if t > self.rightNow:
            self.rightNow = t
        return True

    # ---- connection plumbing
    def _later_lost(self, t, reason):
        # as tcp.Connection.abortConnection does: connectionLost from a callLater(0); virtual
        # time cannot advance past it
        def fire():
            if not t.disconnected:
                t.out.fin = not t.out.blackhole
                t._connection_lost(reason)
        self.callLater(0, fire)

    def _link_maybe_done(self, link):
        pass

    def routable(self, host, port):
        return host not in self.unroutable and (host, port) not in self.unroutable

    def complete_connect(self, c, refuse=False):
        """Scheduler action: the SYN of pending connector c is answered."""
        if c.state != "connecting":
            if c in self.pending:
                self.pending.remove(c)
            return None
        self.pending.remove(c)
        port = self.ports.get(c.port)
        if refuse or port is None or not port.listening or c.host in self.refuse or (c.host, c.port) in self.refuse:
            self.netlog.append(("refused", c.host, c.port, self.seconds()))
            c.connectionFailed(failure.Failure(error.ConnectionRefusedError()))
            return None
        mode = self.mode_for_port.get(c.port, self.default_mode)
        link = Link(self, self.next_link, mode)
        self.next_link += 1
        caddr = address.IPv4Address("TCP", "127.0.0.1", self.alloc_port())
        saddr = address.IPv4Address("TCP", c.host, c.port)
        ta = SimTransport(self, link, 0, caddr, saddr, mode)
        tb = SimTransport(self, link, 1, saddr, caddr, mode)
        link.ends = [ta, tb]
        link.tags["port"] = c.port
        link.tags["dial"] = c.cid
        self.links.append(link)
        port.accepted += 1
        self.netlog.append(("connected", link.id, c.host, c.port, self.seconds()))

        def server_side():
            sp = port.factory.buildProtocol(caddr)
            if sp is None:
                tb.connected = 0
                tb.disconnected = 1
                link.dirs[1].fin = True
                return
            tb.protocol = sp
            tb.connected = 1
            sp.makeConnection(tb)

        def client_side():
            ta.connector = c
            c.transport = ta
            cp = c.buildProtocol(saddr)
            if cp is None:
                ta.connector = None
                ta.connected = 0
                ta.disconnected = 1
                link.dirs[0].fin = True
                c.connectionLost(failure.Failure(error.ConnectionDone()))
                return
            ta.protocol = cp
            ta.connected = 1
            cp.makeConnection(ta)

        order = [server_side, client_side]
        if self.rng.random() < 0.5:
            order.reverse()
        for f in order:
            try:
                f()
            except BaseException:
                log.err()
        return link

    # ---- the action interface used by the scheduler
    def actions(self):
        """All currently enabled network actions as (kind, key, obj...) tuples.  `key`
        identifies the *source* (stable across steps) for priority-based strategies."""
        acts = []
        for c in self.pending:
            if c.state == "connecting" and self.routable(c.host, c.port):
                acts.append(("connect", ("connect", c.cid), c))
        for link in self.links:
            for t in link.ends:
                if t is None:
                    continue
                if t.connected and t.writing:
                    d = t.out
                    if d.blackhole and self.blackhole_sndbuf is not None and t.outbuf and d.swallowed >= self.blackhole_sndbuf:
                        pass       # send buffer full and nothing acknowledged: the write side is stuck
                    elif (not t.outbuf) or len(d.wire) < self.wire_capacity or d.blackhole:
                        acts.append(("flush", ("flush", link.id, t.end), t))
                d = t.inc
                if t.connected:
                    if d.wire and t.reading:
                        acts.append(("data", ("data", link.id, t.end), t))
                    elif d.fin and not d.wire and (t.reading or t.tls_closing):
                        acts.append(("fin", ("fin", link.id, t.end), t))
        return acts

    def do(self, act, nbytes=None):
        kind = act[0]
        if kind == "lost":
            t, reason = self.lost_queue.pop(0)
            if not t.disconnected:
                t.out.fin = not t.out.blackhole
                t._connection_lost(reason)
        elif kind == "connect":
            self.complete_connect(act[2])
        elif kind == "flush":
            act[2]._do_write()
        elif kind == "data":
            self.deliver(act[2], nbytes)
        elif kind == "fin":
            self.deliver_fin(act[2])
        else:
            raise ValueError(kind)

    def deliver(self, t, nbytes=None):
        d = t.inc
        n = len(d.wire) if nbytes is None else max(1, min(nbytes, len(d.wire)))
        chunk = bytes(d.wire[:n])
        del d.wire[:n]
        d.delivered += n
        t.rx_total += n
        if len(t.rx_log) < 600:
            t.rx_log += chunk[:600]
        try:
            t.protocol.dataReceived(chunk)
        except BaseException:
            # the reactor logs the error and disconnects the selectable
            f = failure.Failure()
            log.err(f)
            t.out.fin = not t.out.blackhole
            t._connection_lost(f)

    def deliver_fin(self, t):
        d = t.inc
        d.fin = False
        if t.mode == "tls" and t.tls_closing:
            t._connection_lost(failure.Failure(error.ConnectionDone()))
            return
        p = interfaces.IHalfCloseableProtocol(t.protocol, None)
        if p is not None and not t.other.disconnected:
            try:
                p.readConnectionLost()
            except BaseException:
                log.err()
                t._connection_lost(failure.Failure())
            return
        # peer closed: our own unsent data is discarded; tell the peer if it is still there
        if t.mode == "tls" and not t.out.blackhole:
            t.out.fin = True
        t._connection_lost(failure.Failure(error.ConnectionDone()))

    # ---- faults
    def cut(self, link, first=None):
        """Both ends learn the connection is gone (RST), in-flight bytes are lost."""
        self.netlog.append(("cut", link.id, self.seconds()))
        for d in link.dirs:
            d.wire.clear()
            d.fin = False
        ends = [e for e in link.ends if e is not None]
        if first == 1 or (first is None and self.rng.random() < 0.5):
            ends.reverse()
        for e in ends:
            if e.connected:
                e.outbuf.clear()
                e._connection_lost(failure.Failure(error.ConnectionLost()))

    def blackhole(self, link, direction=None):
        self.netlog.append(("blackhole", link.id, direction, self.seconds()))
        for i, d in enumerate(link.dirs):
            if direction is None or direction == i:
                d.blackhole = True
                d.wire.clear()
                d.fin = False

    def live_links(self, **tags):
        out = []
        for link in self.links:
            if all(link.tags.get(k) == v for k, v in tags.items()):
                if all(e is not None and e.connected for e in link.ends):
                    out.append(link)
        return out

    def owned(self, pred):
        """transports still connected whose (unwrapped) protocol satisfies pred"""
        out = []
        for link in self.links:
            for e in link.ends:
                if e is not None and e.connected and pred(_unwrap(e.protocol)):
                    out.append(e)
        return out
