"""C18 - application events arrive once each and in causal order; no get_* hangs after close."""
from ..mailbox_work import build_case, trace_digest, events_view, prefix_violation
from ..monitors import MON

PID = "C18"
LEVEL = "exploration"
RULE = ("C03-style workloads (random/swept cuts, reordering+duplicating real server; a third of the "
        "cases use the plain order-preserving real server for the versions-before-messages clause; "
        "10% use mismatched codes) with delegate or Deferred API, all get_* subscribed at creation "
        "plus up to 12 extra get_*() at random times including after close; a share of cases leaves one side's "
        "received messages unread (never / at most k get_message calls) so a backlog exists at close. Non-trivial = a verifier "
        "was seen and the wormhole closed with extra gets issued; distinct = decision traces.")
ASSUMPTIONS = ["Deferred callbacks fire in the order the eventual queue was fed, so firing order = event order"]
FLOORS = {"quick": {"extra_gets": 2000, "gets_after_close": 300, "closed": 600, "order_preserving_cases": 100, "unread_backlog_at_close": 40, "codes_set_after_the_wormhole_closed": 20, "delegate_callbacks_raised": 40, "long_sessions_with_late_drops": 8},
          "thorough": {"codes_set_after_the_wormhole_closed": 600, "extra_gets": 40000, "gets_after_close": 6000, "closed": 10000, "order_preserving_cases": 2000, "unread_backlog_at_close": 2500, "delegate_callbacks_raised": 1500, "long_sessions_with_late_drops": 250}}
ORDER = {"code": 0, "key": 1, "verifier": 2, "versions": 3, "msg": 3, "closed": 4}
GETS = ["welcome", "code", "unverified_key", "verifier", "versions", "message"]


def cases(tier, seed, prep=None):
    out = []
    n = 500 if tier == "quick" else 16000
    for i in range(n):
        out.append({"kind": "random", "seed": seed * 1000003 + 700000 + i,
                    "server": ("plain" if i % 3 == 0 else "reorder"),
                    "mismatch": (i % 10 == 7), "ndrops": [0, 0, 1, 2, 3]})
    # unread backlog: one side never (or only k times) asks for messages, so received messages are still
    # buffered when the wormhole closes; they must not be handed out afterwards
    for i in range(60 if tier == "quick" else 2000):
        who = "ab"[i % 2]
        over = {"api_" + who: "deferred", "get_" + who: ["never", "lazy"][i // 2 % 2], "get_limit": i % 3}
        out.append({"kind": "random", "seed": seed * 1000003 + 750000 + i, "server": ("plain" if i % 3 == 0 else "reorder"),
                    "mismatch": False, "ndrops": [0, 0, 1], "cfg_over": over, "min_msgs": 2, "unread": who.upper()})
    # an application bug: a delegate callback raises while a server message is being processed; the wormhole then
    # ends with that error - once, and nothing may follow it (more messages from the peer, a later close())
    for i in range(60 if tier == "quick" else 2000):
        who = "ab"[i % 2]
        out.append({"kind": "random", "seed": seed * 1000003 + 760000 + i, "server": ("plain" if i % 3 == 0 else "reorder"),
                    "mismatch": False, "ndrops": [0, 0, 1], "cfg_over": {"api_" + who: "delegate"}, "min_msgs": 3,
                    "app_bug": [who.upper(), ["msg", "msg", "versions", "verifier"][i % 4], 1 + (i // 4) % 3]})
    # long conversations (70-100 messages each way, delegate API on at least one side) with the connection losses late
    # in the session: whatever the client remembers about what it has already processed must still hold then
    for i in range(16 if tier == "quick" else 500):
        who = "ab"[i % 2]
        out.append({"kind": "random", "seed": seed * 1000003 + 770000 + i, "server": ("plain" if i % 3 == 0 else "reorder"),
                    "mismatch": False, "ndrops": [1, 2, 3], "drop_kinds": ["cut", "cut", "server-close"], "cfg_over": {"api_" + who: "delegate"},
                    "min_msgs": 70, "max_msgs": 100, "max_size": 6, "late_drops": True})
    # the code becomes known only after the wormhole has ended: B closes (or is closed by a welcome error) before its
    # application gets round to set_code(); nothing may be announced after the closed notification
    for i in range(40 if tier == "quick" else 1200):
        out.append({"kind": "random", "seed": seed * 1000003 + 780000 + i, "server": "plain", "mismatch": False, "ndrops": [0],
                    "cfg_over": {"api_b": ["delegate", "delegate", "deferred"][i % 3], "b_code": "set", "a_code": "set", "code_after_close": True},
                    "late_code": ["close", "welcome-error"][i % 2], "late_code_at": [0, 1, 3, 8, 20][i % 5]})
    bases = range(2) if tier == "quick" else range(16)
    for b in bases:
        for who in "AB":
            for k in range(0, 220, 5 if tier == "quick" else 1):
                out.append({"kind": "sweep", "seed": seed * 7919 + 300 + b, "drop_at": k, "who": who,
                            "server": "reorder", "mismatch": False})
    return out


def run_case(spec):
    if spec.get("late_code") == "welcome-error":
        spec = dict(spec, welcome_error="the server is closed for maintenance")
    world, drv, sch, cfg = build_case(spec, max_msgs=spec.get("max_msgs", 6), max_size=spec.get("max_size", 100),
                                      adversary=(spec["server"] == "reorder"))
    rng = world.work_rng
    if spec.get("late_code"):
        # B's application is slow to set its code: hold set_code back until B has been told that the wormhole is closed
        base0 = drv.actions

        def gated():
            return [a for a in base0() if a[0] != ("app", "B.set_code") or drv.b.closed]
        drv.actions = gated
        drv.drain_actions = gated
        if spec["late_code"] == "close":
            sch.faults.append((spec["late_code_at"], drv.b.close, "B closes before its code is set"))
            sch.faults.sort(key=lambda f: f[0])
    if spec.get("mismatch"):
        drv.cfg["code_b"] = None   # decided when A's code is known
        orig = drv.code_for_b

        def code_for_b():
            c = drv.a.code
            return None if c is None else c + "x"
        drv.code_for_b = code_for_b
    if spec.get("app_bug"):
        drv.app(spec["app_bug"][0]).raise_on = [spec["app_bug"][1], spec["app_bug"][2] if spec["app_bug"][1] == "msg" else 1]
    chained = 0
    for app in (drv.a, drv.b):
        if app.api == "deferred" and rng.random() < 0.5:
            app.chain_gets_from_key_callback(rng.choice([("versions",), ("versions", "verifier"), ("verifier", "versions"), ("code", "versions")]))
            chained += 1
    budget = {"A": rng.randint(0, 12), "B": rng.randint(0, 12)}
    counters = {"extra_gets": 0, "gets_after_close": 0}
    base_actions = drv.actions

    def actions():
        acts = base_actions()
        for name in "AB":
            app = drv.app(name)
            if budget[name] > 0 and app.api == "deferred":
                def g(app=app, name=name):
                    budget[name] -= 1
                    counters["extra_gets"] += 1
                    if app.closed or any(k.endswith("-err") for k in app.kinds()):
                        counters["gets_after_close"] += 1
                    app.extra_get(rng.choice(GETS))
                acts.append((("app", name + ".xget"), g))
        return acts
    drv.actions = actions
    drv.drain_actions = actions
    bug_app = drv.app(spec["app_bug"][0]) if spec.get("app_bug") else None
    done = (lambda: drv.all_delivered() or (bug_app is not None and bug_app.closed and drv.all_sent())) if not spec.get("mismatch") else (
        lambda: any(k.endswith("-err") for k in drv.a.kinds() + drv.b.kinds()))
    if spec.get("unread"):
        rd = drv.app("B" if spec["unread"] == "A" else "A")     # the side that does read everything
        nr = drv.app(spec["unread"])
        done = lambda: drv.all_sent() and rd.msgs == nr.sent
    if spec.get("late_code"):
        done = lambda: drv.b.closed and drv.b_started
    if spec.get("late_drops"):
        sch.faults = [(k + 500 + 200 * i, fn, lab) for i, (k, fn, lab) in enumerate(sch.faults)]
        end = sch.run(8000, until=lambda: done() and not sch.faults)
        sch.drain(120.0, 120000, until=done)
    else:
        end = sch.run(1200, until=done)
        sch.drain(120.0, 5000, until=done)
    backlog = 0
    if spec.get("unread"):
        sch.drain(20.0, 600)
        backlog = len(getattr(getattr(nr.w, "_received_observer", None), "_results", ()))
    for app_ in (drv.a, drv.b):
        if not app_.close_calls:          # (a side that has closed itself already is not closed a second time)
            app_.close()
    sch.drain(120.0, 4000, until=lambda: drv.a.closed and drv.b.closed)
    # after close: a burst of late gets, then one more drain turn
    for app in (drv.a, drv.b):
        if app.api == "deferred":
            for what in GETS:
                counters["extra_gets"] += 1
                counters["gets_after_close"] += 1
                app.extra_get(what)
    sch.drain(30.0, 600, until=lambda: all(g[2] != "pending" for a in (drv.a, drv.b) for g in a.get_results))
    world.finish()

    viol = []

    def wit(app):
        return {"events": events_view(app), "calls": app.calls[:40], "gets": app.get_results[:40],
                "cfg": {k: v for k, v in cfg.items() if not k.startswith("plan")}, "server": spec["server"]}
    if not spec.get("mismatch"):
        # each message event occurs once: what a side received is a prefix of what its peer sent
        # (messages reach the application through the standing get_message() chain and through the extra gets, so
        # only membership and multiplicity are judged here; their order is C03's subject)
        for (rx, tx) in ((drv.a, drv.b), (drv.b, drv.a)):
            got = list(rx.msgs) + [g[3] for g in rx.get_results if g[1] == "message" and g[2] == "ok"]
            for m_ in got:
                if m_ not in tx.sent:
                    viol.append({"key": "C18/message-event/never-sent", "msg": "%s was handed %r, which the peer never sent" % (rx.name, bytes(m_[:24])), "witness": wit(rx)})
                    break
                if got.count(m_) > tx.sent.count(m_):
                    viol.append({"key": "C18/message-event/twice", "msg": "%s was handed %r %d times" % (rx.name, bytes(m_[:24]), got.count(m_)), "witness": wit(rx)})
                    break
    for app in (drv.a, drv.b):
        kinds = app.kinds()
        core = [k for k in kinds if k in ORDER]
        for k in ("code", "key", "verifier", "versions", "closed"):
            if core.count(k) > 1:
                viol.append({"key": "C18/twice/" + k, "msg": "%s (%s API) saw %s %d times" % (app.name, app.api, k, core.count(k)),
                             "witness": wit(app)})
        hi = -1
        for k in core:
            if ORDER[k] < hi:
                prev = [x for x in core[:core.index(k)] if ORDER[x] > ORDER[k]]
                viol.append({"key": "C18/order/%s-after-%s" % (k, prev[0] if prev else "?"),
                             "msg": "%s (%s API): event order %s" % (app.name, app.api, core), "witness": wit(app)})
                break
            hi = max(hi, ORDER[k])
        # the same order must hold for an application that asks for later events from inside an earlier
        # event's callback: the first observation of each kind, in firing order
        first_seen = []
        for k in app.order:
            k0 = k.rstrip("+")
            if k0 in ORDER and k0 not in first_seen:
                first_seen.append(k0)
        hi2 = -1
        for k0 in first_seen:
            if ORDER[k0] < hi2:
                viol.append({"key": "C18/order-seen-by-chained-gets/%s-late" % k0,
                             "msg": "%s: first observations in firing order %s (all observations: %s)" % (app.name, first_seen, app.order[:20]), "witness": wit(app)})
                break
            hi2 = max(hi2, ORDER[k0])
        if ("msg" in core or "versions" in core) and "verifier" not in core[:min([core.index(x) for x in ("msg", "versions") if x in core])]:
            viol.append({"key": "C18/data-before-verifier", "msg": "%s: %s" % (app.name, core), "witness": wit(app)})
        if spec["server"] == "plain" and "msg" in core and ("versions" not in core or core.index("versions") > core.index("msg")):
            viol.append({"key": "C18/message-before-versions", "msg": "%s (order-preserving server): %s" % (app.name, core),
                         "witness": wit(app)})
        # nothing after closed (delegate) / after the first failure (deferred)
        if app.api == "delegate" and "closed" in kinds and kinds.index("closed") != len(kinds) - 1:
            viol.append({"key": "C18/event-after-closed/" + kinds[kinds.index("closed") + 1],
                         "msg": "%s: %s" % (app.name, kinds), "witness": wit(app)})
        if app.api == "deferred":
            errs = [i for i, k in enumerate(kinds) if k.endswith("-err")]
            if errs:
                late = [k for k in kinds[errs[0]:] if not k.endswith("-err") and k != "closed"]
                if late:
                    viol.append({"key": "C18/event-after-closed/" + late[0], "msg": "%s: %s" % (app.name, kinds),
                                 "witness": wit(app)})
        # no get_* may hang once the wormhole is closed
        if app.closed:
            pend = [g for g in app.get_results if g[2] == "pending"]
            if pend or app.pending_gets > 0:
                what = pend[0][1] if pend else "message"
                viol.append({"key": "C18/get-hangs-after-close/" + what,
                             "msg": "%s: get_%s() issued at step %s never fired nor failed (closed=%s)" % (
                                 app.name, what, pend[0][0] if pend else "?", app.close_results), "witness": wit(app)})
            # gets issued after the close was observed must fail, not succeed
            cstep = [s for (s, k, v) in app.ev if k == "closed"]
            if cstep:
                for g in app.get_results:
                    if g[0] > cstep[0] and g[2] == "ok":
                        viol.append({"key": "C18/get-succeeds-after-close/" + g[1],
                                     "msg": "%s: get_%s() issued at step %d after closed (step %d) returned a value" % (
                                         app.name, g[1], g[0], cstep[0]), "witness": wit(app)})
                        break
        else:
            viol.append({"key": "C18/never-closed", "msg": "%s: close() did not complete in the drain" % app.name,
                         "witness": wit(app)})
    nontrivial = None
    if (drv.a.closed and drv.b.closed and counters["extra_gets"] and
            ("verifier" in drv.a.kinds() or spec.get("mismatch"))):
        nontrivial = trace_digest(sch)
    return {
        "violations": viol, "nontrivial": nontrivial,
        "counters": dict(counters, closed=int(drv.a.closed) + int(drv.b.closed), drops=drv.drops_done,
                         order_preserving_cases=int(spec["server"] == "plain"),
                         mismatch_cases=int(bool(spec.get("mismatch"))),
                         long_sessions_with_late_drops=int(bool(spec.get("late_drops")) and drv.drops_done > 0 and len(drv.a.msgs) + len(drv.b.msgs) >= 130),
                         unread_backlog_at_close=backlog, delegate_callbacks_raised=(getattr(drv.a, "raised", 0) + getattr(drv.b, "raised", 0)), delegate_sides=int(drv.a.api == "delegate") + int(drv.b.api == "delegate"),
                         codes_set_after_the_wormhole_closed=int(bool(spec.get("late_code")) and drv.b_started and drv.b.closed),
                         notrans_seen=len(MON.notrans), log_errors_seen=len(MON.errors)),
        "sets": {"event_sequences": [" ".join(k for k in drv.a.kinds() if k in ORDER)]},
        "sample": {"spec": spec, "A": drv.a.kinds(), "B": drv.b.kinds(), "A_gets": drv.a.get_results[:10],
                   "apis": [drv.a.api, drv.b.api], "end": end},
    }
