"""C02 - the mailbox server cannot forge, alter, re-label, replay or reflect messages."""
import re
from ..env import World
from ..sched import Scheduler
from ..adversary import Tamper
from ..mailbox_work import TwoParty, make_plan, prefix_violation, STRATS, events_view, b2s
from ..monitors import MON

PID = "C02"
LEVEL = "exploration"
RULE = ("honest A/B exchange (versions + 1-4 uniquely tagged messages each way) through the real "
        "server with a tampering layer on its `message` responses: 1-3 operations per case from "
        "flip/truncate/extend, relabel phase (cross-phase replay, version<->numeric, dilate-N, unknown), "
        "rename side (fresh / the victim's own), reflect the victim's own message under the peer's or "
        "a fresh side, inject fabricated bodies/PAKE, duplicate-with-different-body, reorder; applied "
        "at every message position (thorough: full op x position x victim matrix). A case counts as "
        "non-trivial only if the victim client actually processed a tampered message; distinct = "
        "(ops, positions, victim, phases).")
ASSUMPTIONS = ["denial of service is allowed: any error verdict or a stalled session is not a violation"]
FLOORS = {"quick": {"tampered_processed": 400, "delivered": 400}, "thorough": {"tampered_processed": 8000, "delivered": 8000}}
PHASES = ["pake", "version", "0", "1", "2", "3", "dilate-0", "dilate-1", "foo", "-1", "00", "١"]


def one_op(rng, victim=None, at=None, op=None):
    op = op or rng.choice(Tamper.OPS)
    d = {"victim": victim or rng.choice("AB"), "at": at if at is not None else rng.randint(0, 11), "op": op,
         "keep": rng.random() < 0.7}
    if op in ("relabel", "inject"):
        d["phase"] = rng.choice(PHASES)
    if op in ("reflect", "inject"):
        d["as"] = rng.choice(["peer", "peer", "fresh"])
    if op == "reflect" and rng.random() < 0.35:
        d["as"] = "own+suffix"
        d["suffix"] = rng.choice(["\u00e9", "\u0661", " ", "\n", "\u200b", "\x00"])
    if op == "relabel" and rng.random() < 0.35:
        d["suffix"] = rng.choice(["\u00e9", "\u0661", " ", "\n", "\u200b", "\uff10"])
    if op == "reflect":
        d["which"] = rng.choice(["last", "first"])
        if rng.random() < 0.3:
            d["phase"] = rng.choice(PHASES)
    if op == "inject":
        d["wellformed"] = rng.random() < 0.7
    if op == "early-side":
        d["as"] = rng.choice(["fresh", "fresh", "own"])
        d["keep"] = rng.random() < 0.4
    return d


def label_variant_cases(base, reps):
    """directed: labels that differ from a genuine one only by characters an encoder might drop or fold"""
    out = []
    k = 0
    for rep in range(reps):
        for victim in "AB":
            for at in range(0, 8):
                for sfx in ("\u00e9", "\u0661", "\u200b", " "):
                    out.append({"seed": base + k, "ops": [{"victim": victim, "at": at, "op": "relabel", "keep": True, "phase": "0", "suffix": sfx}]})
                    out.append({"seed": base + k + 1, "ops": [{"victim": victim, "at": at, "op": "reflect", "keep": True, "as": "own+suffix", "suffix": sfx,
                                                                "which": ["last", "first"][at % 2]}]})
                    k += 2
                # ... or only by the case of its hex digits
                out.append({"seed": base + k, "ops": [{"victim": victim, "at": at, "op": "reflect", "keep": True, "as": "own-upper", "which": ["last", "first"][at % 2]}]})
                k += 1
    return out


def long_session_cases(base, n):
    """a long session (70-100 messages from the peer), then the server replays one of the peer's first messages"""
    out = []
    for i in range(n):
        victim = "AB"[i % 2]
        out.append({"seed": base + i, "long": [70, 80, 100][i % 3], "victim_delegate": True,
                    "ops": [{"victim": victim, "at": 68 + (i % 5) * 6, "op": "replay-old", "keep": True,
                             "phase": ["version", "version", "pake", "0", "1"][i % 5], "fresh_id": i % 2 == 0}]})
    return out


def foreign_session_cases(base, n):
    """an earlier session ran in the same process; the server then feeds its recorded frames (old side label, old
    phase) to a wormhole of the next session, right after that wormhole's key exchange"""
    out = []
    for i in range(n):
        out.append({"seed": base + i, "prior_session": True,
                    "ops": [{"victim": "AB"[i % 2], "at": 1 + (i // 2) % 3, "op": "replay-foreign", "keep": True}]})
    return out


def stashed_pake_cases(base, n):
    """the victim enters its code with the input helper and types the words late: a fabricated PAKE (from the server or a
    third participant on the nameplate) is waiting, stashed, when the words arrive - it is then processed inside the
    application's own choose_words() call, not while a server message is being handled"""
    out = []
    for i in range(n):
        out.append({"seed": base + i, "late_words": True,
                    "ops": [{"victim": "B", "at": 0, "op": "inject", "keep": True, "phase": "pake", "as": ["peer", "fresh"][i % 2],
                             "wellformed": [True, True, False][i % 3]}]})
    return out


def cases(tier, seed, prep=None):
    import random
    out = []
    rng = random.Random(seed * 77 + 2)
    out += stashed_pake_cases(seed * 1000003 + 280000, 30 if tier == "quick" else 900)
    if tier == "quick":
        for i in range(520):
            out.append({"seed": seed * 1000003 + 200000 + i, "ops": [one_op(rng) for _ in range(rng.choice([1, 1, 2, 3]))]})
        for op in Tamper.OPS:
            for at in range(0, 10, 2):
                out.append({"seed": seed * 1000003 + 210000 + at, "ops": [one_op(rng, "AB"[at % 4 // 2], at, op)]})
        out += label_variant_cases(seed * 1000003 + 240000, 1)
        out += long_session_cases(seed * 1000003 + 260000, 16)
        out += foreign_session_cases(seed * 1000003 + 270000, 40)
    else:
        out += long_session_cases(seed * 1000003 + 260000, 400)
        out += foreign_session_cases(seed * 1000003 + 270000, 1200)
        out += label_variant_cases(seed * 1000003 + 240000, 12)
        k = 0
        for op in Tamper.OPS:
            for victim in "AB":
                for at in range(0, 12):
                    for rep in range(8):
                        out.append({"seed": seed * 1000003 + 220000 + k, "ops": [one_op(rng, victim, at, op)]})
                        k += 1
        for i in range(8000):
            out.append({"seed": seed * 1000003 + 300000 + i, "ops": [one_op(rng) for _ in range(rng.choice([2, 3]))]})
    return out


def run_case(spec):
    world = World(spec["seed"])
    rng = world.work_rng
    cfg = {"a_code": rng.choice(["set", "alloc"]), "b_code": rng.choice(["set", "input"]),
           "code": "%d-alpha-beta" % rng.randint(1, 500),
           "api_a": rng.choice(["deferred", "delegate"]), "api_b": rng.choice(["deferred", "delegate"]),
           "versions_a": {"who": "A", "r": rng.randint(0, 99)}, "versions_b": {"who": "B", "r": rng.randint(100, 199)},
           "plan_a": make_plan(rng, "A", rng.randint(1, 4), 60, gates=("any", "key", "verified")),
           "plan_b": make_plan(rng, "B", rng.randint(1, 4), 60, gates=("any", "key", "verified"))}
    if spec.get("long"):
        v = spec["ops"][0]["victim"]
        peer = "b" if v == "A" else "a"
        cfg["plan_" + peer] = make_plan(rng, peer.upper(), spec["long"], 30, gates=("verified",))
        cfg["api_" + v.lower()] = "delegate"      # the delegate API shows every event as often as it happens
    dilated = spec["seed"] % 5 == 3 and not spec.get("long")
    if dilated:
        # both wormholes are also being dilated: dilate-N control records share the mailbox with the numbered phases
        cfg["dilation"] = True
        cfg["api_a"] = cfg["api_b"] = "deferred"
    foreign = []
    if spec.get("prior_session"):
        # session 1: an honest exchange on another nameplate, completed and closed before session 2 begins
        cfg1 = dict(cfg, code="%d-gamma-delta" % rng.randint(501, 900), api_a="deferred", api_b="deferred",
                    plan_a=make_plan(rng, "A", 3, 40, gates=("any",)), plan_b=make_plan(rng, "B", 3, 40, gates=("any",)))
        d1 = TwoParty(world, cfg1)
        s1 = Scheduler(world, d1, strategy="random", chunking="whole")
        s1.run(900, until=d1.all_delivered)
        s1.drain(60.0, 3000, until=d1.all_delivered)
        side_b1 = d1.b.w._boss._side
        for (cid, sd, m) in world.server_cmds:
            if m.get("type") == "add" and sd == side_b1 and m.get("phase") != "pake":
                foreign.append({"side": side_b1, "phase": m["phase"], "body": m["body"], "server_rx": 0.0, "server_tx": 0.0})
        d1.a.close()
        d1.b.close()
        s1.drain(60.0, 3000, until=lambda: d1.a.closed and d1.b.closed)
    if spec.get("late_words"):
        cfg["a_code"], cfg["b_code"] = "set", "input"
    drv = TwoParty(world, cfg)
    if spec.get("late_words"):
        base_actions = drv.actions

        def actions():
            acts = base_actions()
            got_pake = any(m.get("type") == "message" and m.get("phase") == "pake" and m.get("side") != drv.b.w._boss._side for (_, m) in drv.b.inbound)
            if not got_pake:
                acts = [a for a in acts if a[0] != ("app", "B.choose_words")]
            return acts
        drv.actions = actions
        drv.drain_actions = actions
    if dilated:
        for app in (drv.a, drv.b):
            try:
                app.w.dilate()
            except Exception as e:
                world.escapes.append((world.step, "app", "dilate()", type(e).__name__, repr(e)[:200], ""))
    adv = Tamper(world, spec["ops"])
    adv.foreign = foreign
    if dilated:
        from ..adversary import ReorderDup
        adv.downstream = ReorderDup(world, p_dup=0.0)     # and the server hands everything out in any order
    adv.names = {drv.a.w._boss._side: "A", drv.b.w._boss._side: "B"}
    world.adversary = adv
    sch = Scheduler(world, drv, strategy=rng.choice(STRATS), chunking="whole")

    def settled():
        if drv.all_delivered():
            return True
        return any(k.endswith("-err") or k == "closed" for k in drv.a.kinds() + drv.b.kinds()) and world.step > 150
    if rng.random() < 0.3:
        # one application gives up early: the remaining (possibly tampered) messages arrive while it is closing
        early = rng.choice([drv.a, drv.b])
        sch.faults.append((rng.randint(20, 200), early.close, "early close " + early.name))
    sch.run(700 if not spec.get("long") else 4000, until=settled)
    sch.drain(40.0, 3000 if not spec.get("long") else 12000, until=settled)
    if spec.get("long"):
        sch.drain(5.0, 600)       # let the replayed message be processed
    drv.a.close()
    drv.b.close()
    sch.drain(120.0, 4000, until=lambda: drv.a.closed and drv.b.closed)
    sch.drain(3.0, 200)
    world.finish()

    viol = []
    # "ignores the message or closes with an error": an application call that raises something undocumented because of
    # what the server sent is neither
    for e in world.escapes:
        if e[1] == "app" and e[3] not in ("WormholeClosed", "KeyFormatError", "WrongPasswordError", "LonelyError", "ServerError", "WelcomeError", "OnlyOneCodeError",
                                            "AlreadyChoseNameplateError", "AlreadyChoseWordsError", "MustChooseNameplateFirstError", "NoKeyError", "OldPeerCannotDilateError"):
            viol.append({"key": "C02/api-call-raises/%s" % e[3], "msg": "%s: %s" % (e[2][:80], e[4]), "witness": {"spec": spec, "escape": list(e)[:5]}})
            break
    # which tampered messages did a client really process?
    processed = 0
    for (v, kind, kw) in adv.tampered:
        app = drv.app(v)
        for (_, m) in app.inbound:
            if m.get("type") == "message" and m.get("id") == kw.get("id") and m.get("body") == kw.get("body") \
                    and m.get("phase") == kw.get("phase") and m.get("side") == kw.get("side"):
                processed += 1
                break

    def wit(app):
        return {"ops": spec["ops"], "tampered_sent": [(v, k, {x: (y if x != "body" else y[:40]) for x, y in kw.items() if x in ("side", "phase", "body")}) for (v, k, kw) in adv.tampered][:10],
                "sides": adv.names, "events": events_view(app), "sent_by_peer": [b2s(m) for m in (drv.b if app is drv.a else drv.a).sent],
                "own_sent": [b2s(m) for m in app.sent], "boss_inputs": app.binputs[:40],
                "versions_expected": cfg["versions_b"] if app is drv.a else cfg["versions_a"]}
    for (rx, tx, vers) in ((drv.a, drv.b, cfg["versions_b"]), (drv.b, drv.a, cfg["versions_a"])):
        pv = prefix_violation(rx.msgs, tx.sent, own=rx.sent)
        if pv:
            viol.append({"key": "C02/delivered/" + pv[0], "msg": "%s: %s after ops %s" % (rx.name, pv[1], [o["op"] for o in spec["ops"]]),
                         "witness": wit(rx)})
        # every delivered item must be backed by a frame the victim processed that carried the peer's
        # real side, the right phase and a body the peer really submitted
        peer_side = tx.w._boss._side
        genuine = {(m.get("phase"), m.get("body")) for (cid, sd, m) in world.server_cmds if m.get("type") == "add" and sd == peer_side}
        backed = {m.get("phase") for (_, m) in rx.inbound if m.get("type") == "message" and m.get("side") == peer_side
                  and (m.get("phase"), m.get("body")) in genuine}
        need = (["version"] if rx.all("versions") else []) + [str(i) for i in range(len(rx.msgs))]
        if rx.all("verifier") and not (backed - {"pake"}):
            need = ["version"] + need
        for ph in need:
            if ph not in backed:
                viol.append({"key": "C02/accepted-without-genuine-frame/" + ("version" if ph == "version" else "message"),
                             "msg": "%s reported %s but never processed a frame (side=peer, phase=%s, body as submitted); ops %s" % (
                                 rx.name, "versions/verifier" if ph == "version" else "message %s" % ph, ph, [o["op"] for o in spec["ops"]]),
                             "witness": wit(rx)})
                break
        got_v = rx.all("versions")
        if len(got_v) > 1:
            viol.append({"key": "C02/versions-twice", "msg": "%s got versions %d times" % (rx.name, len(got_v)), "witness": wit(rx)})
        if got_v and got_v[0] != vers:
            viol.append({"key": "C02/versions-forged", "msg": "%s got versions %r, the peer sent %r" % (rx.name, got_v[0], vers),
                         "witness": wit(rx)})
        kinds = rx.kinds()
        if "closed" in kinds:
            after = [k for k in kinds[kinds.index("closed"):] if k in ("msg", "versions", "verifier", "key", "code")]
            if after:
                viol.append({"key": "C02/delivery-after-close/" + after[0], "msg": "%s: %s" % (rx.name, kinds), "witness": wit(rx)})
        if len(rx.close_results) > 1 and rx.api == "delegate":
            viol.append({"key": "C02/closed-notified-twice", "msg": "%s: wormhole_closed called %d times: %s" % (rx.name, len(rx.close_results), rx.close_results), "witness": wit(rx)})
        if not rx.closed:
            viol.append({"key": "C02/close-hangs", "msg": "%s never closed (denial of service is allowed, a hanging close() is not)" % rx.name,
                         "witness": wit(rx)})
    delivered = len(drv.a.msgs) + len(drv.b.msgs)
    nontrivial = None
    if processed:
        nontrivial = [[(o["victim"], o["at"], o["op"], o.get("phase"), o.get("as")) for o in spec["ops"]],
                      [(v, k, kw.get("phase")) for (v, k, kw) in adv.tampered][:6]]
    verdicts = [a.close_results[0] if a.closed else "never" for a in (drv.a, drv.b)]
    # an injected body that is merely undecryptable (plain hex of any length, under a phase and side label that are
    # well-formed) is the "wrong password" situation: the client is scared, it does not trip over the message
    plain = (len(spec["ops"]) == 1 and spec["ops"][0]["op"] == "inject" and not spec.get("late_words")
             and re.fullmatch(r"version|[0-9]+", str(spec["ops"][0].get("phase", "0"))) and not dilated)
    if plain:
        for (v, kind, kw) in adv.tampered:
            app = drv.app(v)
            vd = app.close_results[0] if app.closed else "never"
            if vd in ("AssertionError", "ValueError", "TypeError", "KeyError", "IndexError", "AttributeError", "CryptoError") and \
                    re.fullmatch(r"([0-9a-f]{2})*", str(kw.get("body"))) and str(kw.get("side", "")).isascii():
                viol.append({"key": "C02/trips-over-an-undecryptable-message/" + vd, "msg": "%s: injected %d undecryptable bytes under phase %r; the wormhole ended with %s, not WrongPasswordError" % (
                    v, len(str(kw.get("body"))) // 2, kw.get("phase"), vd), "witness": wit(app)})
                break
    return {"violations": viol, "nontrivial": nontrivial,
            "counters": {"tampered_sent": len(adv.tampered), "tampered_processed": processed, "delivered": delivered,
                         "complete_despite_tamper": int(drv.all_delivered()), "dilated_cases": int(dilated), "long_sessions": int(bool(spec.get("long"))),
                         **{"op_" + o["op"]: 1 for o in spec["ops"]},
                         **{"verdict_" + v: 1 for v in verdicts},
                         "notrans_seen": len(MON.notrans), "log_errors_seen": len(MON.errors)},
            "sets": {"logged_error_types": sorted({e[0] for e in MON.errors})},
            "sample": {"spec": spec, "tampered": [(v, k, kw.get("phase"), kw.get("side")) for (v, k, kw) in adv.tampered][:5],
                       "processed": processed, "A": drv.a.kinds(), "B": drv.b.kinds(), "verdicts": verdicts}}
