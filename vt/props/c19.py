"""C19 - codes are well-formed with the promised entropy; code entry is consistent."""
import re

from .. import boot
from ..env import World
from ..sched import Scheduler
from ..apps import WApp

PID = "C19"
LEVEL = "exploration"
RULE = ("(a) form: allocate_code(n), n=0..8, called at once / after the welcome / after 1-25 scheduler steps, against the real server whose `allocated` reply is rewritten "
        "to nameplates of many shapes; (b) entropy, structurally: os.urandom as seen by the word chooser "
        "is scripted so that every byte value is fed at every word position (256 x positions, "
        "exhaustive): each word is a bijection of exactly one fresh 1-byte draw onto the 256 words of "
        "its list, independent of the other draws; (c) rejection: generated codes with spaces or a "
        "non-numeric nameplate must raise KeyFormatError and cause no command on the wire; (d) entry: "
        "random typed prefixes against random server nameplate lists through the input helper and "
        "CodeInputter (bcft replaced by a direct call that pumps the simulator), with helper calls in the "
        "wrong order at every stage (documented error expected, final code unchanged); (e) any sequence of "
        "the three code calls. Non-trivial/distinct = distinct (sub-workload, input) tuples.")
ASSUMPTIONS = ["os.urandom itself is uniform (quality of the OS generator is out of scope)",
               "unicode decimal digits count as numeric (client and server both use \\d); only U+0020 is a space"]
FLOORS = {"quick": {"refused_tabs_on_a_malformed_nameplate": 10, "nameplate_prefixes_ending_in_a_hyphen": 12, "entropy_draws_checked": 9000, "form_codes": 60, "rejections": 600, "completions_checked": 3000, "code_call_sequences": 100, "out_of_order_helper_calls": 40, "codes_entered_by_completion": 100, "typed_words_rejections": 60, "nameplate_edits_after_commit": 10},
          "thorough": {"refused_tabs_on_a_malformed_nameplate": 100, "nameplate_prefixes_ending_in_a_hyphen": 200, "entropy_draws_checked": 9000, "form_codes": 1500, "rejections": 60000, "completions_checked": 100000, "code_call_sequences": 3000, "out_of_order_helper_calls": 1500, "codes_entered_by_completion": 3000, "typed_words_rejections": 2000, "nameplate_edits_after_commit": 300}}
NAMEPLATES = ["1", "7", "42", "999", "1000", "123456789", "007", "0", "00", "٣", "４２"]


def cases(tier, seed, prep=None):
    q = tier == "quick"
    out = [{"kind": "entropy", "seed": seed}]
    b = seed * 1000003 + 1900000
    for i in range(72 if q else 1800):
        out.append({"kind": "form", "seed": b + i, "n": i % 9, "np": NAMEPLATES[i % len(NAMEPLATES)],
                    "when": ["now", "welcome", "steps", "now"][(i // 9) % 4]})
    for i in range(30 if q else 1200):
        out.append({"kind": "reject", "seed": b + 10000 + i})
    for i in range(60 if q else 2000):
        out.append({"kind": "entry", "seed": b + 20000 + i})
    for i in range(120 if q else 3600):
        out.append({"kind": "onecode", "seed": b + 30000 + i})
    return out


def lists():
    from wormhole import _wordlist as wl
    return wl.odd_words_lowercase, wl.even_words_lowercase


def valid_allocated_code(code, nameplate, n):
    odd, even = lists()
    if not code.startswith(nameplate + "-"):
        return "does not start with the server's nameplate %r" % nameplate
    words = code[len(nameplate) + 1:]
    parts = words.split("-") if words else []
    if len(parts) != n:
        return "has %d words, %d requested" % (len(parts), n)
    for i, w in enumerate(parts):
        if w not in (odd if i % 2 == 0 else even):
            return "word %d %r is not in the %s list" % (i, w, "odd" if i % 2 == 0 else "even")
    return None


def run_entropy(spec):
    import random
    from wormhole._wordlist import PGPWordList
    odd, even = lists()
    viol = []
    if len(odd) != 256 or len(even) != 256:
        viol.append({"key": "C19/wordlist-size", "msg": "odd %d even %d" % (len(odd), len(even)), "witness": {}})
    rng = random.Random(spec["seed"])
    draws_checked = 0
    sample = []
    wl = PGPWordList()
    for k in range(0, 9):
        base = [rng.randrange(256) for _ in range(k)]
        script = []
        calls = []

        def fake(n):
            calls.append(n)
            return bytes([script.pop(0) if script else 0 for _ in range(n)])
        boot.set_drbg(fake)
        try:
            script[:] = list(base)
            ref = wl.choose_words(k).split("-") if k else []
            if k and (calls != [1] * k or script):
                viol.append({"key": "C19/entropy/draws-per-word", "msg": "choose_words(%d) drew %s bytes (one fresh 1-byte draw per word expected)" % (k, calls),
                             "witness": {"k": k, "calls": list(calls)}})
                continue
            if k == 0 and wl.choose_words(0) != "":
                viol.append({"key": "C19/zero-words-not-empty", "msg": repr(wl.choose_words(0)), "witness": {}})
            for pos in range(k):
                seen = {}
                for b in range(256):
                    script[:] = list(base)
                    script[pos] = b
                    del calls[:]
                    try:
                        words = wl.choose_words(k).split("-")
                    except Exception as e:
                        viol.append({"key": "C19/choose_words-raises/" + type(e).__name__, "msg": "k=%d pos=%d byte=%d: %r (draws %s)" % (k, pos, b, e, calls),
                                     "witness": {}})
                        break
                    draws_checked += 1
                    if calls != [1] * k or script:
                        viol.append({"key": "C19/entropy/draws-per-word", "msg": "choose_words(%d) drew %s bytes (one fresh 1-byte draw per word expected)" % (k, calls),
                                     "witness": {"k": k, "calls": list(calls)}})
                        break
                    if len(words) != k:
                        viol.append({"key": "C19/entropy/word-count", "msg": "%d words for k=%d" % (len(words), k), "witness": {}})
                        break
                    others = [w for i, w in enumerate(words) if i != pos]
                    if others != [w for i, w in enumerate(ref) if i != pos]:
                        viol.append({"key": "C19/entropy/words-not-independent", "msg": "changing byte %d changed another word: %s vs %s" % (pos, words, ref),
                                     "witness": {}})
                        break
                    seen[b] = words[pos]
                else:
                    want = odd if pos % 2 == 0 else even
                    if set(seen.values()) != set(want):
                        viol.append({"key": "C19/entropy/not-a-bijection", "msg": "position %d of %d: 256 byte values map onto %d distinct words, %d of them in the %s list" % (
                            pos, k, len(set(seen.values())), len(set(seen.values()) & set(want)), "odd" if pos % 2 == 0 else "even"),
                            "witness": {"k": k, "pos": pos}})
                    if k == 3:
                        sample.append({"pos": pos, "byte0": seen[0], "byte255": seen[255]})
        finally:
            boot.set_drbg(None)
    # tripwire: chi-square over real draws (cannot flake: threshold p < 1e-12)
    import collections
    c = collections.Counter()
    N = 256 * 40
    for _ in range(N // 2):
        a, b2 = wl.choose_words(2).split("-")
        c["o:" + a] += 1
        c["e:" + b2] += 1
    chi = sum((c.get(("o:" + w), 0) - N / 512) ** 2 / (N / 512) for w in odd) + sum((c.get(("e:" + w), 0) - N / 512) ** 2 / (N / 512) for w in even)
    if chi > 900:      # 510 dof: mean 510, sd 32; 900 is > 12 sd
        viol.append({"key": "C19/entropy/chi-square-tripwire", "msg": "chi2=%.0f over %d draws" % (chi, N), "witness": {}})
    return {"violations": viol, "nontrivial": ["entropy", draws_checked], "counters": {"entropy_draws_checked": draws_checked, "chi2_x100": int(chi * 100)},
            "sample": {"kind": "entropy", "draws_checked": draws_checked, "positions": sample, "chi2": chi}}


class RewriteAllocated:
    def __init__(self, np):
        self.np = np
        self.dups = self.out_of_order = 0

    def intercept(self, conn, mtype, kwargs):
        if mtype == "allocated":
            kwargs["nameplate"] = self.np
        return False

    def actions(self):
        return []


def run_form(spec):
    world = World(spec["seed"])
    world.adversary = RewriteAllocated(spec["np"])
    a = WApp(world, "A")
    sch = Scheduler(world, None, chunking="whole")
    when = spec.get("when", "now")
    if when == "welcome":
        # the application asks for a code only once the server has said hello (connection already open)
        sch.run(300, until=lambda: "welcome" in a.kinds())
    elif when == "steps":
        sch.run(world.work_rng.randint(1, 25))
    a.call("allocate_code", spec["n"])
    sch.run(400, until=lambda: a.code is not None or a.closed)
    code = a.code
    a.close()
    sch.drain(60.0, 2000, until=lambda: a.closed)
    world.finish()
    viol = []
    if code is None:
        viol.append({"key": "C19/form/no-code", "msg": "allocate_code(%d) produced no code (events %s)" % (spec["n"], a.kinds()), "witness": {"spec": spec}})
    else:
        why = valid_allocated_code(code, spec["np"], spec["n"])
        if why:
            viol.append({"key": "C19/form/malformed", "msg": "allocate_code(%d) with server nameplate %r gave %r: %s" % (spec["n"], spec["np"], code, why),
                         "witness": {"spec": spec, "code": code}})
    return {"violations": viol, "nontrivial": ["form", spec["n"], spec["np"], code], "counters": {"form_codes": int(code is not None), "form_when_" + when: 1},
            "sample": {"kind": "form", "when": when, "n": spec["n"], "server_nameplate": spec["np"], "code": code}}


def bad_codes(rng, n):
    out = []
    for _ in range(n):
        kind = rng.choice(["space", "space-np", "alpha-np", "empty-np", "ws-np", "trail-nl", "lead-nl", "mixed", "sign", "dot", "onlyspace", "surrogate"])
        words = "-".join(rng.sample(["purple", "sausages", "alpha", "x", "ü"], rng.randint(0, 3)))
        np_ = str(rng.randint(0, 9999))
        if kind == "surrogate":
            # a str that has no encoding at all (what a non-UTF-8 byte on the command line turns into)
            code = np_ + "-" + (words + "-" if words else "") + rng.choice(["caf\udce9", "\udcff", "x\ud800y"])
        elif kind == "space":
            code = np_ + "-" + (words + " x" if words else " ")
        elif kind == "space-np":
            code = rng.choice([" " + np_, np_ + " ", np_[:1] + " " + np_[1:]]) + "-" + words
        elif kind == "alpha-np":
            code = rng.choice(["abc", "4a", "a4", "x" + np_, np_ + "x", "0x10", "١a"]) + "-" + words
        elif kind == "empty-np":
            code = "-" + words
        elif kind == "ws-np":
            code = rng.choice(["\t", "\n", "4\t", "\t4", "4\n5", "\r4", "4\x0b", " 4", "4 "]) + "-" + words
        elif kind == "trail-nl":
            code = np_ + "\n-" + words
        elif kind == "lead-nl":
            code = "\n" + np_ + "-" + words
        elif kind == "mixed":
            code = np_ + rng.choice(["_", "+", "e3", ".0", ",", "/", "'"]) + "-" + words
        elif kind == "sign":
            code = rng.choice(["-", "+"]) + np_ + "-" + words
        elif kind == "dot":
            code = np_ + "." + np_ + "-" + words
        else:
            code = " "
        out.append((kind, code))
    return out


def run_reject(spec):
    world = World(spec["seed"])
    rng = world.work_rng
    a = WApp(world, "A")
    b = WApp(world, "B")
    sch = Scheduler(world, None, chunking="whole")
    sch.run(200, until=lambda: a.first("welcome") is not None and b.first("welcome") is not None)
    helper = b.call("input_code")
    sch.run(100)
    viol = []
    n = 0
    words_rejections = [0]
    side_a, side_b = a.w._boss._side, b.w._boss._side
    for (kind, code) in bad_codes(rng, 40):
        for (who, fn, side) in (("set_code", lambda c: a.w.set_code(c), side_a),
                                ("choose_nameplate", lambda c: helper.choose_nameplate(c.split("-", 1)[0] if "-" in c else c), side_b)):
            arg = code
            if who == "choose_nameplate":
                npart = code.split("-", 1)[0] if "-" in code else code
                if re.fullmatch(r"\d+", npart):
                    continue    # for the helper only the nameplate part matters; this one is fine
            before = len([1 for (c, s, m) in world.server_cmds if s == side])
            try:
                fn(arg)
                got = "accepted"
            except Exception as e:
                got = type(e).__name__
            sch.run(40)
            after_cmds = [m.get("type") for (c, s, m) in world.server_cmds if s == side][before:]
            after_cmds = [c for c in after_cmds if c not in ("list",)]
            n += 1
            if got != "KeyFormatError":
                viol.append({"key": "C19/reject/%s-%s/%s" % (who, kind, got), "msg": "%s(%r) -> %s (KeyFormatError expected)" % (who, arg, got),
                             "witness": {"spec": spec, "code": arg, "cmds_caused": after_cmds}})
                # a wrongly accepted code consumes the one code call: start over with fresh wormholes
                world.finish()
                return {"violations": viol, "nontrivial": ["reject", spec["seed"]], "counters": {"rejections": n},
                        "sample": {"kind": "reject", "accepted": arg}}
            if after_cmds:
                viol.append({"key": "C19/reject/command-sent-for-malformed-code", "msg": "%s(%r) raised but caused %s" % (who, arg, after_cmds),
                             "witness": {"spec": spec}})
    # the wormholes are still usable afterwards
    a.call("set_code", "5-purple-sausages")
    helper.choose_nameplate("5")
    # the words typed at the prompt complete the code: words that make it malformed (a space) are rejected like
    # any other malformed code, and nothing of the key exchange is sent for them
    sch.run(60)
    for words in rng.sample(["purple sausages", " purple-sausages", "purple-sausages ", "purple- sausages", "a b c", " ", "purple-caf\udce9", "\udcff"], 4):
        before = len([1 for (c, s, m) in world.server_cmds if s == side_b])
        try:
            helper.choose_words(words)
            got = "accepted"
        except Exception as e:
            got = type(e).__name__
        sch.run(40)
        after_cmds = [m.get("type") for (c, s, m) in world.server_cmds if s == side_b][before:]
        after_cmds = [c for c in after_cmds if c not in ("list",)]
        n += 1
        words_rejections[0] += 1
        if got != "KeyFormatError":
            viol.append({"key": "C19/reject/choose_words-space/" + got, "msg": "choose_words(%r) -> %s (KeyFormatError expected); afterwards sent %s, code %r" % (words, got, after_cmds, b.code),
                         "witness": {"spec": spec, "words": words, "cmds_caused": after_cmds}})
            world.finish()
            return {"violations": viol, "nontrivial": ["reject", spec["seed"]], "counters": {"rejections": n}, "sample": {"kind": "reject", "accepted": words}}
        if after_cmds:
            viol.append({"key": "C19/reject/command-sent-for-malformed-code", "msg": "choose_words(%r) raised but caused %s" % (words, after_cmds), "witness": {"spec": spec}})
    helper.choose_words("purple-sausages")
    sch.run(600, until=lambda: "verifier" in a.kinds() and "verifier" in b.kinds())
    if "verifier" not in a.kinds() or "verifier" not in b.kinds():
        viol.append({"key": "C19/reject/wormhole-unusable-after-rejections", "msg": "%s %s" % (a.kinds(), b.kinds()), "witness": {"spec": spec}})
    a.close()
    b.close()
    sch.drain(60.0, 3000, until=lambda: a.closed and b.closed)
    world.finish()
    return {"violations": viol, "nontrivial": ["reject", spec["seed"]], "counters": {"rejections": n, "typed_words_rejections": words_rejections[0]},
            "sample": {"kind": "reject", "n": n, "examples": [c for (_, c) in bad_codes(world.work_rng, 3)]}}


def run_entry(spec):
    from wormhole._rlcompleter import CodeInputter
    world = World(spec["seed"])
    rng = world.work_rng
    odd, even = lists()
    odd_l, even_l = sorted(odd), sorted(even)
    # some other wormholes populate the server's nameplate list
    others = []
    nps = rng.sample(["1", "12", "123", "13", "2", "21", "300", "45", "7", "77"], rng.randint(1, 6))
    for i, np_ in enumerate(nps):
        o = WApp(world, "O%d" % i, subscribe=False)
        o.call("set_code", np_ + "-x")
        others.append(o)
    b = WApp(world, "B")
    sch = Scheduler(world, None, chunking="whole")
    sch.run(600, until=lambda: len(world.nameplate_claims()) >= len(nps) and b.first("welcome") is not None)
    helper = b.call("input_code")
    use_inputter = rng.random() < 0.5
    viol = []
    checked = 0
    hyphen_prefixes = [0]

    def pump(d):
        from twisted.internet import defer
        if isinstance(d, defer.Deferred):
            box = []
            d.addBoth(box.append)
            sch.run(600, until=lambda: bool(box))
            return box[0] if box else None
        return d
    ci = CodeInputter(helper, world.reactor)
    ci.bcft = lambda f, *a, **kw: pump(f(*a, **kw))
    server_nps = set(n for (n, s, c) in world.nameplate_claims())
    wit = {"spec": spec, "server_nameplates": sorted(server_nps), "via": "CodeInputter" if use_inputter else "helper"}
    # nameplate phase
    shrunk = 0
    ever_nps = set()
    for _ in range(rng.randint(1, 5)):
        prefix = rng.choice(["", "1", "12", "2", "3", "9", "45", "x", "1 "])
        if not use_inputter and rng.random() < 0.35:
            # a front-end that completes on the whole input field hands back what it was offered, hyphen included
            prefix = rng.choice(["1-", "12-", "2-", "-", rng.choice(nps) + "-", "1-p"])
            hyphen_prefixes[0] += 1
        live_others = [o for o in others if not o.close_calls]
        if len(live_others) > 1 and rng.random() < 0.4:
            # a sender gives up between two refreshes: the server's list shrinks
            gone = rng.choice(live_others)
            gone.close()
            sch.run(300, until=lambda: gone.closed)
            sch.run(20)
            # (CodeInputter asks for a refresh and completes from the list it already has: "results arrive later")
            # the inputter path may therefore lag behind the server by any number of refreshes; only the helper
            # path (refresh, wait for the answer, then complete) is held to the server's current list
            if use_inputter:
                ever_nps |= server_nps
            server_nps = set(n for (n, s_, c) in world.nameplate_claims() if c)
            wit["server_nameplates"] = sorted(server_nps)
            shrunk += 1
        if use_inputter:
            comps = ci._commit_and_build_completions(prefix)
        else:
            helper.refresh_nameplates()
            sch.run(60)
            comps = sorted(helper.get_nameplate_completions(prefix))
        for c in comps:
            checked += 1
            if not c.startswith(prefix):
                viol.append({"key": "C19/entry/nameplate-completion-does-not-extend", "msg": "typed %r, offered %r" % (prefix, c), "witness": wit})
            if not c.endswith("-") or c[:-1] not in (server_nps | ever_nps):
                viol.append({"key": "C19/entry/nameplate-completion-not-from-server", "msg": "offered %r, server has %s" % (c, sorted(server_nps)), "witness": wit})
    if not server_nps:
        world.finish()
        return {"inconclusive": "no nameplate left to choose", "violations": []}
    np_ = rng.choice(sorted(server_nps))
    order_calls = [0]

    def out_of_order(stage):
        """helper calls in the wrong order must raise the documented error and change nothing"""
        other = rng.choice([x for x in ["1", "2", "500", "77"] if x != np_])
        table = {"before-nameplate": [("choose_words", lambda: helper.choose_words("a-b"), "MustChooseNameplateFirstError"),
                                      ("get_word_completions", lambda: helper.get_word_completions("a"), "MustChooseNameplateFirstError")],
                 "after-nameplate": [("choose_nameplate", lambda: helper.choose_nameplate(other), "AlreadyChoseNameplateError"),
                                     ("get_nameplate_completions", lambda: helper.get_nameplate_completions("1"), "AlreadyChoseNameplateError"),
                                     ("refresh_nameplates", lambda: helper.refresh_nameplates(), "AlreadyChoseNameplateError")],
                 "after-words": [("choose_words", lambda: helper.choose_words("a-b"), "AlreadyChoseWordsError"),
                                 ("choose_nameplate", lambda: helper.choose_nameplate(other), "AlreadyChoseNameplateError"),
                                 ("get_word_completions", lambda: helper.get_word_completions("a"), "AlreadyChoseWordsError")]}
        for (name, fn, want) in rng.sample(table[stage], rng.randint(0, 2)):
            order_calls[0] += 1
            try:
                fn()
                got = "no exception"
            except Exception as e:
                got = type(e).__name__
            if got != want:
                viol.append({"key": "C19/entry/out-of-order/%s-%s/%s" % (name, stage, got),
                             "msg": "%s() %s: %s (documented: %s)" % (name, stage, got, want), "witness": wit})
    if not use_inputter:
        out_of_order("before-nameplate")
        helper.choose_nameplate(np_)
        if rng.random() < 0.5:
            out_of_order("after-nameplate")        # before the wordlist is known
        sch.run(300, until=lambda: helper._input._wordlist is not None)
        out_of_order("after-nameplate")
    malformed_tabs = 0
    if use_inputter and rng.random() < 0.7:
        # the user's first attempt at the nameplate is a typo (a letter among the digits); TAB after the hyphen is refused,
        # the user corrects the line and goes on: the typo must not have been taken for a commitment
        bad = rng.choice([np_ + "x", "x" + np_, np_ + "\u00a0", "4x", "l" + np_[1:]])
        if not bad.isdigit():
            malformed_tabs = 1
            try:
                ci._commit_and_build_completions(bad + "-")
                wit["malformed_nameplate_tab"] = [bad, "accepted"]
            except Exception as e:
                wit["malformed_nameplate_tab"] = [bad, type(e).__name__]
            _raw = ci._commit_and_build_completions

            def _checked(text):
                try:
                    return _raw(text)
                except Exception as e:
                    if not any(v["key"].startswith("C19/entry/corrected-nameplate-refused") for v in viol):
                        viol.append({"key": "C19/entry/corrected-nameplate-refused/" + type(e).__name__,
                                     "msg": "after a refused TAB on the malformed nameplate %r the corrected line %r is answered with %s" % (bad, text, type(e).__name__), "witness": wit})
                    return []
            ci._commit_and_build_completions = _checked
    # word phase
    chosen = None
    for _ in range(rng.randint(2, 8)):
        nwords = rng.randint(0, 3)
        done = [rng.choice(odd_l if i % 2 == 0 else even_l) for i in range(nwords)]
        if rng.random() < 0.15 and done:
            done[rng.randrange(len(done))] = rng.choice(["zzzz", "PURPLE", ""])
        partial_src = rng.choice(odd_l if nwords % 2 == 0 else even_l)
        partial = partial_src[:rng.randint(0, len(partial_src))]
        if rng.random() < 0.1:
            partial = partial.upper()
        typed_words = "-".join(done + [partial])
        if use_inputter:
            comps = ci._commit_and_build_completions(np_ + "-" + typed_words)
            typed = np_ + "-" + typed_words
        else:
            comps = sorted(helper.get_word_completions(typed_words))
            typed = typed_words
        prefix_ok = all(w in (odd if i % 2 == 0 else even) for i, w in enumerate(done))
        for c in comps:
            checked += 1
            if not c.startswith(typed):
                viol.append({"key": "C19/entry/word-completion-does-not-extend", "msg": "typed %r, offered %r" % (typed, c), "witness": wit})
            full = c if use_inputter else np_ + "-" + c
            if not full.endswith("-") and prefix_ok:
                k = len(full[len(np_) + 1:].split("-"))
                why = valid_allocated_code(full, np_, k)
                if why:
                    viol.append({"key": "C19/entry/completed-code-not-allocatable", "msg": "typed %r -> %r: %s" % (typed, full, why), "witness": wit})
                chosen = full
    # TAB-through: the peer allocated a code of k words; the user types the first letters of each word, takes the
    # offered completion that continues towards that word, adds the hyphen where the completion left it out, and
    # presses Enter after the last word. What has been entered must be the peer's code. (k = 1 is left out: entry
    # assumes at least two words and completes a first word with a hyphen.)
    tabbed = 0
    for _ in range(rng.randint(1, 3)):
        k = rng.randint(2, 5)
        target = [rng.choice(odd_l if i % 2 == 0 else even_l) for i in range(k)]
        line = ""
        ok = True
        for i, wd in enumerate(target):
            if i > 0 and not line.endswith("-"):
                line += "-"
            line += wd[:rng.randint(1, len(wd))]
            if use_inputter:
                comps = [c[len(np_) + 1:] for c in ci._commit_and_build_completions(np_ + "-" + line)]
            else:
                comps = sorted(helper.get_word_completions(line))
            want = "-".join(target[:i + 1])
            pick = [c for c in comps if c == want or c == want + "-"]
            checked += len(comps)
            if not pick:
                viol.append({"key": "C19/entry/completion-missing-for-allocatable-word", "msg": "typed %r towards %r: offered %r" % (line, want, comps[:6]), "witness": wit})
                ok = False
                break
            line = pick[0]
        if ok:
            tabbed += 1
            if line != "-".join(target):
                viol.append({"key": "C19/entry/tab-through-does-not-give-the-peers-code", "msg": "peer's words %r (k=%d), entered by completion: %r" % ("-".join(target), k, line), "witness": wit})
            else:
                chosen = np_ + "-" + line
    # finish with an offered completion (or a plain valid code) and check the code event
    final = chosen or (np_ + "-" + rng.choice(odd_l) + "-" + rng.choice(even_l))
    if malformed_tabs:
        ci._commit_and_build_completions = _raw          # (the edits below are meant to be refused)
    rollbacks = 0
    if use_inputter and getattr(ci, "_committed_nameplate", None) == np_ and rng.random() < 0.6:
        # the user goes back and edits the nameplate after a TAB has already committed (claimed) one: a digit added
        # or removed, another number, a leading zero.  Either the edit is refused ("cannot go back"), or what the
        # wormhole ends up using is what the user has on the line - never the old nameplate with the new line
        words_ = final[len(np_) + 1:]
        for np2 in rng.sample([np_ + rng.choice("0123456789"), np_[:-1] or "9", "0" + np_, str(int(np_) + 1), rng.choice("123456789") + np_], rng.randint(1, 3)):
            if np2 == np_:
                continue
            edited = np2 + "-" + words_
            how = rng.choice(["tab", "enter"])
            rollbacks += 1
            try:
                if how == "tab":
                    ci._commit_and_build_completions(edited[:len(np2) + 1 + rng.randint(0, len(words_))])
                    refused = False
                else:
                    ci.finish(edited)
                    refused = False
            except Exception as e:
                refused = type(e).__name__
            if refused is False and how == "enter":
                sch.run(200, until=lambda: b.code is not None)
                if b.code != edited:
                    viol.append({"key": "C19/entry/edited-nameplate-accepted-but-old-one-used", "msg": "a TAB had committed nameplate %r; the user changed the line to %r and pressed Enter: accepted, and the wormhole's code is %r" % (np_, edited, b.code), "witness": wit})
                final = edited
                break
            if refused is False and how == "tab":
                viol.append({"key": "C19/entry/edited-nameplate-completed-after-commit", "msg": "a TAB had committed nameplate %r; on the edited line %r another TAB offered completions instead of refusing" % (np_, edited), "witness": wit})
            elif refused not in (False, "AlreadyInputNameplateError"):
                viol.append({"key": "C19/entry/edited-nameplate/" + str(refused), "msg": "committed %r, edited line %r, %s: %s" % (np_, edited, how, refused), "witness": wit})
    try:
        if b.code is not None:
            pass
        elif use_inputter:
            ci.finish(final)
        else:
            helper.choose_words(final[len(np_) + 1:])
    except Exception as e:
        viol.append({"key": "C19/entry/finish-raises/" + type(e).__name__, "msg": "%r: %r" % (final, e), "witness": wit})
    if not use_inputter and rng.random() < 0.5:
        out_of_order("after-words")
    sch.run(200, until=lambda: b.code is not None)
    if not use_inputter:
        out_of_order("after-words")
    if b.code != final:
        viol.append({"key": "C19/entry/code-differs-from-chosen", "msg": "chose %r, get_code gave %r" % (final, b.code), "witness": wit})
    for o in others + [b]:
        o.close()
    sch.drain(60.0, 6000, until=lambda: all(o.closed for o in others + [b]))
    world.finish()
    return {"violations": viol, "nontrivial": ["entry", spec["seed"], final, use_inputter], "counters": {"completions_checked": checked, "out_of_order_helper_calls": order_calls[0], "nameplate_list_shrunk": shrunk, "codes_entered_by_completion": tabbed, "nameplate_edits_after_commit": rollbacks, "nameplate_prefixes_ending_in_a_hyphen": hyphen_prefixes[0], "refused_tabs_on_a_malformed_nameplate": malformed_tabs},
            "sample": {"kind": "entry", "server_nameplates": sorted(server_nps), "final_code": final, "via": wit["via"], "completions_checked": checked}}


def run_onecode(spec):
    world = World(spec["seed"])
    rng = world.work_rng
    a = WApp(world, "A", api=rng.choice(["deferred", "delegate"]))
    sch = Scheduler(world, None, chunking="whole")
    if rng.random() < 0.5:
        sch.run(rng.randint(0, 60))
    seq = [rng.choice(["alloc", "set", "input", "set-bad"]) for _ in range(rng.randint(2, 6))]
    results = []
    first_ok = None
    viol = []
    for i, c in enumerate(seq):
        try:
            if c == "alloc":
                a.w.allocate_code(rng.choice([1, 2]))
            elif c == "set":
                a.w.set_code("%d-a-b" % rng.randint(1, 99))
            elif c == "input":
                a.w.input_code()
            else:
                a.w.set_code("not numeric-x")
            results.append("ok")
        except Exception as e:
            results.append(type(e).__name__)
        if rng.random() < 0.5:
            sch.run(rng.randint(1, 30))
    expect = []
    started = False
    for c in seq:
        if c == "set-bad":
            expect.append("KeyFormatError")       # validation comes first and does not consume the call
        elif not started:
            expect.append("ok")
            started = True
        else:
            expect.append("OnlyOneCodeError")
    if results != expect:
        bad = [(r, e) for r, e in zip(results, expect) if r != e][0]
        viol.append({"key": "C19/onecode/%s-instead-of-%s" % bad,
                     "msg": "calls %s gave %s, expected %s" % (seq, results, expect), "witness": {"spec": spec, "seq": seq}})
    a.close()
    sch.drain(60.0, 3000, until=lambda: a.closed)
    world.finish()
    return {"violations": viol, "nontrivial": ["onecode", seq], "counters": {"code_call_sequences": 1},
            "sample": {"kind": "onecode", "seq": seq, "results": results}}


def run_case(spec):
    return {"entropy": run_entropy, "form": run_form, "reject": run_reject, "entry": run_entry, "onecode": run_onecode}[spec["kind"]](spec)
