"""C17 - Dilation never blocks shutdown; an incapable peer is reported, not awaited."""
from twisted.internet import protocol

from ..env import World
from ..sched import Scheduler
from ..simnet import unwrap
from ..dilation_work import DilatedPair, RecFactory, ScriptDriver
from ..monitors import MON, state_of

from wormhole._dilation import connector as connector_mod
from wormhole._dilation.connection import DilatedConnectionProtocol

PID = "C17"
LEVEL = "fault_enumeration"
RULE = ("baseline dilation scenarios (dilate at a random point, subchannel traffic, 0-2 cuts of the "
        "selected link so that FLUSHING/LONELY/ABANDONING/CONNECTING-again occur, an optional silent "
        "stranger connected to the dilation listener) re-executed with close() inserted before step k on "
        "either side (k swept over the whole baseline), also right after a 0.1-3 MB write so that the L2 "
        "transport still holds unsent data and has paused its producer; peers with and without dilation=True; connect() "
        "and when_dilated() issued before and after the peer's versions arrive. Oracle: close fires with "
        "a normal verdict; afterwards the closing side owns no listener, no pending connect, no live L2 "
        "connection, no timer. Non-trivial = close was issued while a Manager existed; distinct = "
        "(Manager state, Connector state, closer, role, scenario) at the moment of close.")
ASSUMPTIONS = ["Noise stand-in", "bounded progress: 300 virtual seconds after close()"]
FLOORS = {"quick": {"old_peer_connects_repeated_on_one_endpoint": 40, "closes_with_manager": 500, "old_peer_cases": 40, "closes_after_bulk_write": 40, "closes_with_peer_paused": 15, "late_dilate_cases": 30, "closes_with_a_running_producer_on_a_saturated_link": 4, "closes_after_a_silent_connection_with_unsent_data_was_given_up": 20},
          "thorough": {"old_peer_connects_repeated_on_one_endpoint": 1200, "closes_with_manager": 20000, "old_peer_cases": 1500, "closes_after_bulk_write": 2000, "closes_with_peer_paused": 400, "late_dilate_cases": 1000, "closes_with_a_running_producer_on_a_saturated_link": 100, "closes_after_a_silent_connection_with_unsent_data_was_given_up": 700}}


def cases(tier, seed, prep=None):
    out = []
    q = tier == "quick"
    b = seed * 1000003 + 1700000
    for base in (range(4) if q else range(40)):
        for who in "AB":
            for k in range(0, 520, 7 if q else 1):
                out.append({"kind": "sweep", "seed": b + base, "close_at": k, "who": who, "stranger": base % 2 == 1, "dead_addr": base % 4 < 2})
    # close() at the first moment the Manager is in a given (short-lived) state
    for i in range(80 if q else 2400):
        out.append({"kind": "sweep", "seed": b + 300 + i, "close_at": 100000, "who": "AB"[i % 2], "stranger": False, "dead_addr": i % 4 == 3,
                    "close_in_state": ["ABANDONING", "FLUSHING", "LONELY", "CONNECTING", "ABANDONING"][i % 5]})
    # close() right after a large write: the L2 transport still holds unsent data and has paused Outbound
    for base in (range(2) if q else range(20)):
        for who in "AB":
            for k in range(150, 520, 12 if q else 2):
                out.append({"kind": "sweep", "seed": b + 100 + base, "close_at": k, "who": who, "stranger": False, "dead_addr": False,
                            "bulk": [100000, 300000, 1000000, 3000000][(k // 2) % 4]})
    # the same after the Follower went through ABANDONING once (the Leader noticed an earlier loss first)
    for i in range(40 if q else 1200):
        out.append({"kind": "sweep", "seed": b + 200 + i, "close_at": 420 + (i * 7) % 200, "who": "follower", "stranger": False, "dead_addr": False,
                    "bulk": [100000, 300000, 1000000, 3000000][i % 4], "pre_abandon": 150 + (i * 13) % 120})
    # ... and while the peer's application has paused reading (its kernel window is closed: nothing more can be flushed)
    for i in range(24 if q else 600):
        out.append({"kind": "sweep", "seed": b + 400 + i, "close_at": 300 + (i * 7) % 200, "who": "AB"[i % 2], "stranger": False, "dead_addr": False,
                    "bulk": [1000000, 3000000][i % 2], "peer_paused": True})
    # ... and while a streaming producer of the closing application is running and is faster than the link: nothing may keep
    # feeding a connection that is being closed
    for i in range(30 if q else 900):
        out.append({"kind": "sweep", "seed": b + 600 + i, "close_at": 300 + (i * 7) % 200, "who": "AB"[i % 2], "stranger": False, "dead_addr": False,
                    "streaming": True})
    for i in range(40 if q else 1200):
        out.append({"kind": "late-dilate", "seed": b + 9000 + i, "when": ["closing", "closed"][i % 2], "peer_dilates": i % 4 < 3})
    # close() after the library itself has given a connection up that still held unsent data: a peer that went silent
    # (Leader: two ping intervals without a pong; Follower: told to reconnect by the Leader) with the writer's kernel
    # buffer full - the very situation the give-up paths exist for
    for i in range(32 if q else 1000):
        out.append({"kind": "gave-up", "seed": b + 11000 + i, "writer": ["leader", "follower", "both"][i % 3], "closer": ["leader", "follower"][(i // 3) % 2],
                    "wait": [16.0, 0, 18.0, 0, 25.0, 40.0][(i // 6) % 6], "bulk": [200000, 600000, 1500000][i % 3]})
    for i in range(60 if q else 2000):
        out.append({"kind": "oldpeer", "seed": b + 5000 + i})
    foreign = [{}, {"app_versions": {}}, {"abilities": []}, {"can-dilate": []}, {"can-dilate": ["x"]}, {"app_versions": {"k": 1}, "can-dilate": ["2", "x"]}]
    # (a malformed value such as "can-dilate": null is not a "non-dilating peer"; not part of this property)
    for i in range(36 if q else 1200):
        out.append({"kind": "oldpeer", "seed": b + 8000 + i, "peer_versions": foreign[i % len(foreign)]})
    return out


def owned_leaks(world, dp, name, mgr):
    """what of `mgr` is still alive on the simulated network"""
    r = world.reactor
    leaks = []
    for pn, p in r.ports.items():
        f = p.factory
        if isinstance(f, connector_mod.InboundConnectionFactory) and f._connector._manager is mgr:
            leaks.append(("listener", "port %d" % pn, "-", "-"))
    for c in r.pending:
        f = getattr(c.factory, "_wrappedFactory", c.factory)
        if c.state == "connecting" and isinstance(f, connector_mod.OutboundConnectionFactory) and f._connector._manager is mgr:
            leaks.append(("pending-connect", "%s:%s" % (c.host, c.port), "outbound", "-"))
    for link in r.links:
        for e in link.ends:
            p = unwrap(e.protocol)
            if isinstance(p, DilatedConnectionProtocol) and e.connected and getattr(p._connector, "_manager", None) is mgr:
                leaks.append(("connection", "link %d" % link.id, "outbound" if e.end == 0 else "inbound", state_of(p)))
    t = getattr(mgr, "_timer", None)
    if t is not None and t.active():
        leaks.append(("ping-timer", "", "-", "-"))
    return leaks


def run_late_dilate(spec):
    """dilate() that comes too late: after close() was called (another task of the application closed the wormhole),
    possibly after the closed notification. Either it is refused, or whatever it starts is shut down again: nothing may
    stay behind and a connect() must not hang."""
    world = World(spec["seed"])
    rng = world.work_rng
    r = world.reactor
    dp = DilatedPair(world, ping_interval=5.0, dilate_now=False, relay=False)
    sch = Scheduler(world, None, strategy="random", chunking="whole")
    if spec["peer_dilates"]:
        sch.faults.append((rng.randint(0, 150), lambda: dp.dilate("B"), "peer dilates"))
    sch.run(rng.choice([20, 80, 200, 400]))
    who = "A"
    app = dp.apps[who]
    app.close()
    if spec["when"] == "closing":
        sch.run(rng.randint(0, 12))
    else:
        sch.drain(120.0, 8000, until=lambda: app.closed)
        sch.run(rng.randint(0, 20))
    viol = []
    outcome = None
    res = []
    try:
        dw = app.w.dilate()
        outcome = "returned"
        dw.connector_for("p").connect(RecFactory(dp, "A.open")).addBoth(res.append)
    except Exception as e:
        outcome = type(e).__name__
    sch.drain(300.0, 30000, until=lambda: app.closed and (outcome != "returned" or bool(res)))
    sch.drain(5.0, 3000)
    wit = {"spec": spec, "outcome": outcome, "closed": app.closed, "verdict": app.close_results, "manager": dp.mstate(who),
           "connect": [repr(x)[:80] for x in res], "netlog_tail": [x for x in r.netlog if x[0] in ("listen", "unlisten", "dial")][-8:]}
    if not app.closed:
        viol.append({"key": "C17/close-never-completes/dilate-after-close", "msg": "close() did not complete (dilate() %s it: %s)" % (spec["when"], outcome), "witness": wit})
    if outcome == "returned":
        if not res and dp.mstate(who) != "STOPPED":
            # (a connect() that is pending when its Manager is stopped stays pending - on any close, not only here;
            #  the property asks for failing connects only when the peer cannot dilate)
            viol.append({"key": "C17/connect-hangs/dilate-after-close", "msg": "dilate() issued while %s returned an API object; connect() on it neither fired nor failed in 300 virtual s (Manager %s)" % (
                spec["when"], dp.mstate(who)), "witness": wit})
        mgr = dp.manager(who)
        if mgr is not None and app.closed:
            for (kind, what, direction, state) in owned_leaks(world, dp, who, mgr)[:1]:
                viol.append({"key": "C17/leak/%s/%s/%s" % (kind, direction, "after-late-dilate"), "msg": "closed wormhole, dilate() %s it: still owns %s %s" % (spec["when"], kind, what), "witness": wit})
    elif outcome not in ("WormholeClosed", "CanOnlyDilateOnceError", "NotImplementedError"):
        viol.append({"key": "C17/late-dilate-raises/" + str(outcome), "msg": "dilate() after close() raised %s" % outcome, "witness": wit})
    dp.apps["B"].close()
    sch.drain(120.0, 8000, until=lambda: dp.apps["B"].closed)
    world.finish()
    return {"violations": viol, "nontrivial": ["late-dilate", spec["when"], outcome, spec["seed"]],
            "counters": {"late_dilate_cases": 1, "late_dilate_" + str(outcome): 1, "closed": int(app.closed)},
            "sets": {}, "sample": {"spec": spec, "outcome": outcome}}


def run_gave_up(spec):
    world = World(spec["seed"])
    rng = world.work_rng
    r = world.reactor
    dp = DilatedPair(world, ping_interval=5.0, relay=False)
    drv = ScriptDriver(dp, rng, names=("p0",), max_opens=0, max_writes=0, late_listen=0.0, close_prob=0.0)
    sch = Scheduler(world, drv, strategy=rng.choice(["random", "netfirst"]), chunking="whole")
    sch.run(3000, until=dp.both_connected)
    lead = dp.leader()
    if lead is None or not dp.both_connected():
        world.finish()
        return {"inconclusive": "the pair did not connect", "violations": []}
    foll = "B" if lead == "A" else "A"
    rec = drv.open(lead, "p0")
    sch.run(1500, until=lambda: rec["proto"] is not None and bool(drv.factories[foll]["p0"].built))
    if rec["proto"] is None or not drv.factories[foll]["p0"].built:
        world.finish()
        return {"inconclusive": "subchannel did not open", "violations": []}
    ends = {lead: rec["proto"], foll: drv.factories[foll]["p0"].built[0][1]}
    sch.drain(1.0, 800)
    link = dp.selected_link()
    if link is None:
        world.finish()
        return {"inconclusive": "no selected link", "violations": []}
    r.blackhole_sndbuf = rng.choice([2 ** 14, 2 ** 16, 2 ** 18])     # a silent peer acknowledges nothing: the send buffer fills
    r.blackhole(link)
    writers = [lead, foll] if spec["writer"] == "both" else [lead if spec["writer"] == "leader" else foll]
    for n in writers:
        drv.write(ends[n], b"bulk:" + rng.randbytes(spec["bulk"]))
    t0 = r.seconds()
    states = set()

    who = lead if spec["closer"] == "leader" else foll
    other = foll if who == lead else lead
    left = set()         # sides whose own Manager has left CONNECTED, i.e. which have given the silent connection up themselves

    def hook():
        states.add("%s/%s" % (dp.mstate(lead), dp.mstate(foll)))
        for n_ in (lead, foll):
            if dp.mstate(n_) != "CONNECTED":
                left.add(n_)
    sch.hook = hook
    if spec["wait"]:
        sch.drain(spec["wait"] + rng.random(), 60000)
    else:
        # close() a few steps after the closing side itself has given the connection up (before that it is simply a
        # close() on a silently dead link with unsent data, which only the kernel's retransmission limit ends - not modelled)
        sch.drain(30.0, 60000, until=lambda: who in left)
        sch.drain(30.0, rng.randint(0, 40))
    app = dp.apps[who]
    mgr = dp.manager(who)
    info = {"manager_state": dp.mstate(who), "peer_manager_state": dp.mstate(other), "role": spec["closer"], "waited": round(r.seconds() - t0, 2),
            "states_seen_while_waiting": sorted(states)}
    gave_up = who in left
    if not gave_up:
        world.finish()
        return {"violations": [], "nontrivial": None, "counters": {"gave_up_cases_in_which_the_closer_never_gave_up": 1}, "sets": {}, "sample": {"spec": spec, "at_close": info}}
    app.close()
    end = sch.drain(300.0, 60000, until=lambda: app.closed)
    if end == "steps":
        world.finish()
        return {"inconclusive": "step cap reached in the final drain", "violations": []}
    viol = []

    def wit(extra=None):
        w = {"spec": spec, "at_close": info, "states_now": {n: dp.mstate(n) for n in "AB"}, "verdict": app.close_results,
             "netlog_tail": [x for x in r.netlog if x[0] in ("cut", "blackhole", "lost", "dial", "lose")][-16:]}
        if extra:
            w.update(extra)
        return w
    if not app.closed:
        viol.append({"key": "C17/close-never-completes/after-the-silent-connection-was-given-up/manager=%s" % info["manager_state"],
                     "msg": "%s (%s): the peer connection went silent with unsent data, %.0f virtual s later (Manager %s) close() was issued and did not complete within 300 virtual s (Manager now %s)" % (
                         who, spec["closer"], info["waited"], info["manager_state"], dp.mstate(who)), "witness": wit()})
    else:
        v = app.close_results[0]
        if v not in ("happy", "LonelyError"):
            viol.append({"key": "C17/close-verdict/" + v, "msg": "%s closed with %s" % (who, v), "witness": wit()})
        sch.drain(1.0, 3000)
        for (kind, what, direction, state) in owned_leaks(world, dp, who, mgr)[:2]:
            viol.append({"key": "C17/leak/%s/%s/%s" % (kind, direction, state), "msg": "%s closed (%s) after a given-up connection; afterwards it still owns %s %s (%s, %s)" % (
                who, v, kind, what, direction, state), "witness": wit()})
    dp.apps[other].close()
    end2 = sch.drain(300.0, 60000, until=lambda: dp.apps[other].closed)
    sch.drain(1.0, 3000)
    if end2 != "steps":
        if not dp.apps[other].closed:
            viol.append({"key": "C17/peer-close-never-completes/manager=%s" % dp.mstate(other),
                         "msg": "%s (closing second, Manager %s) did not complete" % (other, dp.mstate(other)), "witness": wit()})
        else:
            mo = dp.manager(other)
            for (kind, what, direction, state) in owned_leaks(world, dp, other, mo)[:1]:
                viol.append({"key": "C17/leak/%s/%s/%s" % (kind, direction, state), "msg": "%s (closing second) still owns %s %s (%s, %s)" % (other, kind, what, direction, state), "witness": wit()})
    world.finish()
    return {"violations": viol, "nontrivial": ["gave-up", info["manager_state"], spec["closer"], spec["writer"], spec["seed"]],
            "counters": {"closes_with_manager": 1, "closes_after_a_silent_connection_with_unsent_data_was_given_up": int(gave_up), "closed": int(app.closed)},
            "sets": {"states_at_close": ["%s/gave-up" % info["manager_state"]], "gave_up_state_pairs_seen": sorted(states)},
            "sample": {"spec": spec, "at_close": info, "verdict": app.close_results}}


def run_case(spec):
    if spec["kind"] == "oldpeer":
        return run_oldpeer(spec)
    if spec["kind"] == "gave-up":
        return run_gave_up(spec)
    if spec["kind"] == "late-dilate":
        return run_late_dilate(spec)
    world = World(spec["seed"])
    rng = world.work_rng
    r = world.reactor
    if spec.get("dead_addr"):
        # an address nobody answers on: connection attempts to it stay pending
        world.local_addresses = world.local_addresses + ["10.0.0.66"]
        r.unroutable.add("10.0.0.66")
    dp = DilatedPair(world, ping_interval=5.0, dilate_now=False, relay=False)
    gates = {n: rng.choice(["now", "key", "versions"]) for n in "AB"}
    started = {"A": False, "B": False}
    drv = ScriptDriver(dp, rng, names=("p0",), max_opens=2, max_writes=10, sizes=(1, 100, 5000), late_listen=0.0,
                       close_prob=0.0 if spec.get("bulk") else 0.3)
    drv.pending_listen = {"A": [], "B": []}
    drv.factories = {"A": {}, "B": {}}
    drv.budget["open"] = {"A": 0, "B": 0}
    base_actions = drv.actions
    closing = set()

    def actions():
        acts = []
        for n in "AB":
            if not started[n] and n not in closing:
                kinds = dp.apps[n].kinds()
                if gates[n] == "now" or (gates[n] == "key" and "key" in kinds) or (gates[n] == "versions" and "versions" in kinds):
                    def go(n=n):
                        started[n] = True
                        dp.dilate(n)
                        drv.listen(n, "p0")
                        drv.budget["open"][n] = rng.randint(0, 2) if not spec.get("bulk") else 2
                    acts.append((("app", n, "dilate"), go))
        if all(started.values()):
            acts += [a for a in base_actions() if a[0][1] not in closing]
        return acts
    drv.actions = actions
    drv.drain_actions = actions
    sch = Scheduler(world, drv, strategy=rng.choice(["random", "pct", "netfirst"]), chunking="whole")
    # 0-2 cuts of the selected link so that the reconnect states occur
    for _ in range(rng.choice([0, 1, 1, 2]) if not (spec.get("close_in_state") or spec.get("bulk")) else 2):
        def cut():
            link = dp.selected_link()
            if link is not None:
                # (with unsent bulk data a blackholed link ends only when TCP gives up, which SimNet does not model)
                how = rng.choice(["both", "blackhole"]) if not spec.get("bulk") else rng.choice(["both", "leader-first", "leader-first"])
                if spec.get("close_in_state"):
                    how = rng.choice(["both", "leader-first", "leader-first"])
                if how == "both":
                    r.cut(link)
                elif how == "leader-first":
                    # only the Leader notices: its RECONNECT reaches a Follower that still believes in the link
                    from twisted.internet import error
                    from twisted.python import failure
                    r.blackhole(link)
                    for e in link.ends:
                        if dp.party_of(unwrap(e.protocol)) == dp.leader() and e.connected:
                            e.outbuf.clear()
                            e._connection_lost(failure.Failure(error.ConnectionLost()))
                else:
                    r.blackhole(link)
        sch.faults.append((rng.randint(120, 480), cut, "fault L2"))
    if spec.get("pre_abandon"):
        def lead_first():
            from twisted.internet import error
            from twisted.python import failure
            link = dp.selected_link()
            if link is None or dp.leader() is None:
                sch.faults.append((world.step + 10, lead_first, "leader-first loss (retry)"))
                sch.faults.sort(key=lambda f: f[0])
                return
            r.blackhole(link)
            for e in link.ends:
                if dp.party_of(unwrap(e.protocol)) == dp.leader() and e.connected:
                    e.outbuf.clear()
                    e._connection_lost(failure.Failure(error.ConnectionLost()))
        sch.faults = [f for f in sch.faults if f[2] != "fault L2"]
        sch.faults.append((spec["pre_abandon"], lead_first, "leader-first loss"))
    # a silent stranger on the dilation listener
    stranger = {"proto": None}
    if spec.get("stranger"):
        def stranger_connect():
            for pn, p in r.ports.items():
                if isinstance(p.factory, connector_mod.InboundConnectionFactory):
                    pr = protocol.Protocol()
                    pr.stranger = True
                    f = protocol.ClientFactory()
                    f.buildProtocol = lambda addr: pr
                    stranger["proto"] = pr
                    r.connectTCP("10.0.8.8", pn, f)
                    return
            sch.faults.append((world.step + 5, stranger_connect, "stranger (retry)"))
            sch.faults.sort(key=lambda f: f[0])
        sch.faults.append((rng.randint(20, 200), stranger_connect, "stranger"))
    who = spec["who"]
    info = {}
    if who == "follower":
        who = "A"       # decided when close() is issued (roles are not known before the key exchange)

    stream = {"prod": None, "ticks": 0, "unpaused_at_close": None}
    if spec.get("streaming"):
        from zope.interface import implementer
        from twisted.internet.interfaces import IPushProducer
        from ..simnet import unwrap as _unwrap

        @implementer(IPushProducer)
        class TimerProducer:
            """writes 32 KiB every millisecond until it is told to pause (or its subchannel is gone)"""

            def __init__(self, p_):
                self.p, self.paused, self.stopped = p_, False, False
                r.callLater(0.001, self.tick)

            def tick(self):
                if self.stopped or "lost" in [e[0] for e in self.p.events] or stream["ticks"] > 20000:
                    return
                if not self.paused:
                    stream["ticks"] += 1
                    try:
                        self.p.transport.write(b"s" * 32768)
                    except Exception:
                        return
                r.callLater(0.001, self.tick)

            def pauseProducing(self):
                self.paused = True

            def resumeProducing(self):
                self.paused = False

            def stopProducing(self):
                self.stopped = True
        quota = {"n": 1}

        def grant():
            quota["n"] = 1
            r.callLater(0.02, grant)
        r.callLater(0.02, grant)

        def slow_link(a):
            # one delivery per 20 ms of virtual time on the peer connection, in either direction
            if a[0] == "data" and a[2][2].link in dp.l2_links():
                if quota["n"] <= 0:
                    return False
            return True
        sch.filter = slow_link
        base_step_hook = []

        def count_deliveries():
            tot = sum(e.rx_total for l in dp.l2_links() for e in l.ends)
            if tot != quota.get("seen"):
                quota["seen"] = tot
                quota["n"] -= 1

        def start_stream():
            side_ = spec["who"] if spec["who"] in "AB" else "A"
            mine = [p for p in drv.protos(side_) if drv.is_open(p)]
            if mine and stream["prod"] is None:
                stream["prod"] = TimerProducer(mine[0])
                mine[0].transport.registerProducer(stream["prod"], True)
            elif not mine and dp.both_connected() and not stream.get("opened"):
                stream["opened"] = True
                oth_ = "B" if side_ == "A" else "A"
                if "stream" not in drv.factories[oth_]:
                    drv.listen(oth_, "stream")
                drv.open(side_, "stream")
            if stream["prod"] is None and world.step < spec["close_at"] - 20:
                sch.faults.append((world.step + 10, start_stream, "start streaming (retry)"))
                sch.faults.sort(key=lambda f: f[0])
        sch.faults.append((max(20, spec["close_at"] - 250), start_stream, "start streaming"))

        def saturated_close():
            # close() at a moment when the link is saturated (the kernel takes no more) while the producer is running
            count_deliveries()
            side_ = spec["who"] if spec["who"] in "AB" else "A"
            if stream["prod"] is None or stream["prod"].paused or side_ in closing or stream.get("sat_close"):
                return
            m_ = dp.manager(side_)
            tr_ = getattr(getattr(m_, "_connection", None), "transport", None)
            if tr_ is None or dp.mstate(side_) != "CONNECTED":
                return
            if 0 < len(tr_.outbuf) < 60000 and len(tr_.out.wire) >= r.wire_capacity - 2000:
                stream["sat_close"] = True
                do_close()
        sch.hook = saturated_close

    def do_close():
        nonlocal who, app
        if stream["prod"] is not None:
            stream["unpaused_at_close"] = not stream["prod"].paused
            stream["t_close"] = r.seconds()
            prev_hook = sch.hook

            def watch_closed():
                if prev_hook is not None:
                    prev_hook()
                if "t_closed" not in stream and dp.apps[who].closed:
                    stream["t_closed"] = r.seconds()
            sch.hook = watch_closed
        if spec["who"] == "follower" and dp.leader() is not None:
            who = "B" if dp.leader() == "A" else "A"
            app = dp.apps[who]
        m = dp.manager(who)
        info["manager_state"] = dp.mstate(who)
        info["connector_state"] = state_of(m._connector) if m is not None and getattr(m, "_connector", None) is not None else None
        info["role"] = str(dp.role(who))
        info["step"] = world.step
        closing.add(who)
        if spec.get("bulk"):
            live = [p for p in drv.protos(who) if drv.is_open(p)]
            if live and spec.get("peer_paused"):
                oth = "B" if who == "A" else "A"
                for q_ in drv.protos(oth):
                    if drv.is_open(q_):
                        q_.transport.pauseProducing()
                        info["peer_paused"] = info.get("peer_paused", 0) + 1
            if live:
                info["bulk_written"] = spec["bulk"]
                drv.write(live[0], b"bulk:" + rng.randbytes(spec["bulk"]))
        dp.apps[who].close()
        c_ = getattr(m, "_connection", None) if m is not None else None
        t_ = getattr(c_, "transport", None)
        info["unsent_at_close"] = len(getattr(t_, "outbuf", b"")) if t_ is not None else 0
    sch.faults.append((spec["close_at"], do_close, "close " + who))
    sch.faults.sort(key=lambda f: f[0])
    if spec.get("close_in_state"):
        seen_connected = []

        def hook():
            st = dp.mstate(who)
            if st == "CONNECTED":
                seen_connected.append(1)
            if who not in closing and st == spec["close_in_state"] and (seen_connected or st != "CONNECTING"):
                do_close()
        sch.hook = hook
    sch.run(700, until=lambda: dp.apps[who].closed)
    if who not in closing:
        do_close()
    app = dp.apps[who]
    ticks0 = stream["ticks"]
    end = sch.drain(300.0, 30000, until=lambda: app.closed)
    if end == "steps" and stream["prod"] is not None and not stream["prod"].paused and not app.closed and dp.mstate(who) == "STOPPING" \
            and stream["ticks"] - ticks0 > 1000:
        # not a question of patience: for thousands of its turns the application's producer has kept writing into the
        # connection that close() is waiting to flush - nobody told it to stop
        world.finish()
        return {"violations": [{"key": "C17/close-never-completes/producer-keeps-feeding-the-connection-being-closed",
                                "msg": "%s: close() with the Manager CONNECTED and a streaming producer running on a saturated link; %d producer turns later the Manager is still STOPPING and the producer was never paused" % (who, stream["ticks"] - ticks0),
                                "witness": {"spec": spec, "at_close": info}}], "nontrivial": None, "counters": {}}
    if end == "steps":
        # the step cap, not the virtual-time bound, ended the drain: no verdict on this case
        world.finish()
        return {"inconclusive": "step cap reached in the final drain", "violations": []}
    mgr = dp.manager(who)
    viol = []

    def wit(extra=None):
        w = {"spec": spec, "at_close": info, "gates": gates, "states_now": {n: dp.mstate(n) for n in "AB"},
             "faults": [t for t in sch.trace if t[0] == "fault"], "drain_end": end,
             "verdict": app.close_results, "boss_inputs": app.binputs[-12:],
             "netlog_tail": [x for x in r.netlog if x[0] in ("cut", "blackhole", "lost", "dial", "listen", "unlisten", "lose")][-20:]}
        if extra:
            w.update(extra)
        return w
    c_now = getattr(mgr, "_connection", None) if mgr is not None else None
    unsent_now = len(getattr(getattr(c_now, "transport", None), "outbuf", b""))
    if not app.closed and info.get("peer_paused") and info.get("bulk_written") and unsent_now and dp.mstate(who) == "STOPPING":
        # one mechanism, keyed on its own: the Manager is STOPPING and waits for loseConnection() to flush data into a
        # peer whose application does not read (whether the connection was up at close() or came up just before the stop)
        viol.append({"key": "C17/close-never-completes/unsent-data-and-peer-application-paused-reading",
                     "msg": "%s: close() with the Manager %s; 300 virtual s later it is STOPPING with %d bytes still unsent and the peer's application not reading" % (
                         who, info.get("manager_state"), unsent_now), "witness": wit()})
    elif not app.closed:
        viol.append({"key": "C17/close-never-completes/manager=%s,connector=%s" % (info.get("manager_state"), info.get("connector_state")),
                     "msg": "%s: close() issued with Manager %s / Connector %s did not complete within 300 virtual s (Manager now %s)" % (
                         who, info.get("manager_state"), info.get("connector_state"), dp.mstate(who)), "witness": wit()})
    else:
        v = app.close_results[0]
        if v not in ("happy", "LonelyError", "WrongPasswordError", "ServerError", "WelcomeError"):
            viol.append({"key": "C17/close-verdict/" + v, "msg": "%s closed with %s" % (who, v), "witness": wit()})
        # let lingering teardown finish (it needs no virtual time), then look at what this side still owns
        sch.drain(1.0, 3000)
        if mgr is not None:
            leaks = owned_leaks(world, dp, who, mgr)
            seen = set()
            for (kind, what, direction, state) in leaks:
                key = "C17/leak/%s/%s/%s" % (kind, direction, state)
                if key not in seen:
                    seen.add(key)
                    viol.append({"key": key, "msg": "%s closed (%s) with Manager %s / Connector %s at close(); afterwards it still owns %s %s (%s, %s)" % (
                        who, v, info.get("manager_state"), info.get("connector_state"), kind, what, direction, state), "witness": wit({"leaks": leaks})})
    # the other side closes too and the network must become silent
    other = "B" if who == "A" else "A"
    dp.apps[other].close()
    sch.drain(300.0, 30000, until=lambda: dp.apps[other].closed)
    sch.drain(1.0, 3000)
    if not dp.apps[other].closed:
        viol.append({"key": "C17/peer-close-never-completes/manager=%s" % dp.mstate(other),
                     "msg": "%s (closing second, Manager %s) did not complete" % (other, dp.mstate(other)), "witness": wit()})
    else:
        mo = dp.manager(other)
        if mo is not None:
            for (kind, what, direction, state) in owned_leaks(world, dp, other, mo)[:1]:
                viol.append({"key": "C17/leak/%s/%s/%s" % (kind, direction, state), "msg": "%s (closing second) still owns %s %s (%s, %s)" % (other, kind, what, direction, state),
                             "witness": wit()})
    if app.closed and dp.apps[other].closed:
        left = [c for c in r.getDelayedCalls() if getattr(c.func, "__qualname__", "").split(".")[-1] not in ("grant", "tick")]     # (the harness' own)
        if left:
            names = sorted({getattr(c.func, "__qualname__", repr(c.func))[:60] for c in left})
            viol.append({"key": "C17/timer-left/" + names[0], "msg": "both wormholes closed, timers still pending: %s" % names, "witness": wit()})
    world.finish()
    had_manager = info.get("manager_state") is not None
    nontrivial = [info.get("manager_state"), info.get("connector_state"), who, info.get("role"), bool(spec.get("stranger")), spec["seed"]] if had_manager else None
    return {"violations": viol, "nontrivial": nontrivial,
            "counters": {"closes_with_manager": int(had_manager), "closes_after_bulk_write": int(bool(info.get("bulk_written"))), "closes_with_peer_paused": int(bool(info.get("peer_paused") and info.get("bulk_written"))), "closed": int(app.closed), "slowest_close_with_a_running_producer_ms": int(1000 * (stream.get("t_closed", stream.get("t_close", 0)) - stream.get("t_close", 0))) if stream["unpaused_at_close"] else 0, "closes_with_a_running_producer_on_a_slow_link": int(bool(stream["unpaused_at_close"]) and info.get("manager_state") == "CONNECTED"), "closes_with_a_running_producer_on_a_saturated_link": int(bool(stream.get("sat_close"))), "closes_with_a_paused_producer_on_a_slow_link": int(stream["unpaused_at_close"] is False), "stranger_connected": int(stranger["proto"] is not None),
                         "notrans_seen": len(MON.notrans)},
            "sets": {"states_at_close": ["%s/%s" % (info.get("manager_state"), info.get("connector_state"))],
                     "dilation_notrans": ["%s.%s/%s" % k for k in set(MON.notrans)],
                     "logged_errors": sorted({e[0] for e in MON.errors})},
            "sample": {"spec": spec, "at_close": info, "verdict": app.close_results, "drain_end": end}}


def run_oldpeer(spec):
    world = World(spec["seed"])
    rng = world.work_rng
    dp = DilatedPair(world, dilate_now=False, dilation=(True, False))
    peer_versions = spec.get("peer_versions")
    if peer_versions is not None:
        # a peer written in another language: its `version` message is whatever that implementation
        # sends (every key is optional) - here fixed by the case, e.g. exactly {}
        dp.b.w._boss._K._SK._versions = peer_versions
    sch = Scheduler(world, None, strategy="random", chunking="whole")
    results = []

    eps = {}
    reuse = spec["seed"] % 2 == 0          # an application that keeps its endpoint object and connects through it again and again

    def issue(tag):
        dw = dp.dilate("A")
        idx = len(results)
        results.append([tag, "connect", "pending", world.step])
        results.append([tag, "when_dilated", "pending", world.step])
        ep = eps.setdefault("p", dw.connector_for("p")) if reuse else dw.connector_for("p")
        ep.connect(RecFactory(dp, "A.open")).addCallbacks(
            lambda p: results[idx].__setitem__(2, "connected"), lambda f: results[idx].__setitem__(2, f.type.__name__))
        dw.when_dilated().addCallbacks(lambda p: results[idx + 1].__setitem__(2, "fired"), lambda f: results[idx + 1].__setitem__(2, f.type.__name__))
        if reuse:
            for j in range(rng.randint(1, 2)):
                k = len(results)
                results.append([tag, "connect-again-on-the-same-endpoint", "pending", world.step])
                ep.connect(RecFactory(dp, "A.open")).addCallbacks(
                    lambda p, k=k: results[k].__setitem__(2, "connected"), lambda f, k=k: results[k].__setitem__(2, f.type.__name__))
    when = rng.choice(["before", "before", "after", "both"])
    if when in ("before", "both"):
        sch.run(rng.randint(0, 40))
        issue("before-versions")
    sch.run(1500, until=lambda: "versions" in dp.a.kinds())
    sch.run(rng.randint(0, 30))
    if when in ("after", "both"):
        issue("after-versions")
    sch.drain(120.0, 5000, until=lambda: all(x[2] != "pending" for x in results))
    viol = []
    for (tag, what, res, step) in results:
        if res != "OldPeerCannotDilateError":
            viol.append({"key": "C17/old-peer/%s-%s/%s" % (what, tag, res),
                         "msg": "peer without dilation: %s() issued %s gave %r (OldPeerCannotDilateError expected)" % (what, tag, res),
                         "witness": {"spec": spec, "results": results, "A_events": dp.a.kinds(), "state": dp.mstate("A")}})
    dp.a.close()
    dp.b.close()
    end = sch.drain(300.0, 10000, until=lambda: dp.a.closed and dp.b.closed)
    if end == "steps":
        # the step cap, not the virtual-time bound, ended the drain: no verdict on this case
        world.finish()
        return {"inconclusive": "step cap reached in the final drain", "violations": []}
    if not (dp.a.closed and dp.b.closed):
        viol.append({"key": "C17/old-peer/close-never-completes/%s" % dp.mstate("A"), "msg": "close with a non-dilating peer hangs (Manager %s)" % dp.mstate("A"),
                     "witness": {"spec": spec, "results": results}})
    world.finish()
    return {"violations": viol, "nontrivial": ["oldpeer", when, spec["seed"]], "counters": {"old_peer_cases": 1, "old_peer_calls": len(results), "old_peer_connects_repeated_on_one_endpoint": sum(1 for x in results if x[1].startswith("connect-again"))},
            "sample": {"kind": "oldpeer", "when": when, "results": results, "verdicts": [dp.a.close_results, dp.b.close_results]}}
