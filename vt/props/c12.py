"""C12 - Dilation L2 framing/encryption/encoding is lossless and rejects unkeyed input."""
import random

from twisted.internet import protocol, interfaces
from zope.interface import implementer

from ..env import World, RELAY_PORT
from ..sched import Scheduler
from ..simnet import unwrap
from ..dilation_work import DilatedPair, ScriptDriver
from ..transit_work import split_frames
from ..monitors import MON, state_of

from wormhole._dilation import connection as conn_mod
from wormhole._dilation.connection import DilatedConnectionProtocol
from wormhole._dilation import connector as connector_mod
from wormhole._dilation import manager as manager_mod
from wormhole._dilation.connection import (_Framer, _Record, KCM, Ping, Pong, Open, Data, Close, Ack, Handshake)
from wormhole._dilation.roles import LEADER, FOLLOWER

PID = "C12"
LEVEL = "exploration"
RULE = ("(codec) real _Framer+_Record pairs with the Noise stand-in over an in-memory transport: all 7 "
        "record types, ids/seqnums 0,1,2^31,2^32-1, payloads whose encoded size is 0..,65518,65519,65520, "
        "2*65519-1,2*65519,2*65519+1,3*65519+7, non-ASCII subprotocol names, fragmentation 1 byte / "
        "frame-aligned / random / all at once; (attack) a real dilating wormhole's listener (and its "
        "outbound relay connection) attacked over SimNet: wrong/truncated/extended prologue, wrong relay "
        "reply, handshake made with another PSK, random handshake bytes, oversized frame; (mitm) on the "
        "established link one byte of frame k is corrupted / the frame truncated, k and field swept. "
        "Non-trivial = records compared (codec) or the offending unit was completely fed (attack/mitm); "
        "distinct = (kind, parameters).")
ASSUMPTIONS = ["Noise stand-in: only 'dropped, nothing surfaced' is asserted, not the exception type"]
FLOORS = {"quick": {"records_roundtripped": 8000, "attacks_fed": 150, "mitm_fed": 100},
          "thorough": {"records_roundtripped": 220000, "attacks_fed": 4000, "mitm_fed": 2800}}
PAY = 65519
ENC_SIZES = [9, 10, 100, PAY - 1, PAY, PAY + 1, 2 * PAY - 1, 2 * PAY, 2 * PAY + 1, 3 * PAY + 7]
NUMS = [0, 1, 2, 255, 256, 2 ** 31 - 1, 2 ** 31, 2 ** 32 - 2, 2 ** 32 - 1]
SUBPROTOS = ["p", "ünï-✓", "𝔘nicode", "a" * 300, "with space", "nul\x00byte"]


def cases(tier, seed, prep=None):
    q = tier == "quick"
    b = seed * 1000003 + 1200000
    out = []
    for i in range(260 if q else 9000):
        out.append({"kind": "codec", "seed": b + i, "frag": ["one", "aligned", "random", "all", "random"][i % 5], "relay": i % 3 == 1})
    for i in range(12 if q else 300):
        out.append({"kind": "codec", "seed": b + 15000 + i, "frag": ["all", "all", "random"][i % 3], "relay": False, "burst": [300, 1000, 1500, 3000][i % 4]})
    attacks = ["wrong-prologue", "truncated-prologue", "extended-prologue", "other-role-prologue", "random-handshake",
               "other-psk", "oversized-frame", "garbage-after-handshake", "bad-relay-reply", "relay-ok-then-garbage", "record-before-kcm"]
    for i in range(176 if q else 5500):
        out.append({"kind": "attack", "seed": b + 20000 + i, "attack": attacks[i % len(attacks)]})
    k = 0
    for rep in range(1 if q else 30):
        for idx in range(0, 12):
            for field in ("length", "body", "tag", "truncate", "first-byte"):
                for d in (0, 1):
                    out.append({"kind": "mitm", "seed": b + 40000 + k, "frame": idx, "field": field, "dir": d})
                    k += 1
    # frames made up by somebody without the key, slipped in between two genuine ones: empty, shorter than a tag, random
    for rep in range(1 if q else 30):
        for idx in range(0, 8):
            for field in ("inject-empty", "inject-short", "inject-random", "inject-two-empty"):
                for d in (0, 1):
                    out.append({"kind": "mitm", "seed": b + 50000 + k, "frame": idx, "field": field, "dir": d})
                    k += 1
    # re-framing: a frame made of several Noise messages is cut at a message boundary by rewriting the
    # length prefix (the pieces are individually authentic); nothing of it may reach the manager
    for i in range(24 if q else 800):
        out.append({"kind": "mitm", "seed": b + 60000 + i, "frame": -1, "field": ["split", "split-drop-tail"][i % 2], "dir": i % 2, "big": True})
    return out


@implementer(interfaces.ITransport)
class MemTransport:
    def __init__(self):
        self.buf = bytearray()
        self.lost = False

    def write(self, data):
        self.buf += data

    def writeSequence(self, seq):
        for s in seq:
            self.write(s)

    def loseConnection(self):
        self.lost = True

    def getPeer(self):
        return None

    def getHost(self):
        return None


def make_noise(psk, initiator):
    n = connector_mod.build_noise()
    n.set_psks(psk)
    if initiator:
        n.set_as_initiator()
    else:
        n.set_as_responder()
    return n


def make_record_pair(psk, psk2=None, relay=False):
    tl, tf = MemTransport(), MemTransport()
    fl = _Framer(tl, connector_mod.PROLOGUE_LEADER, connector_mod.PROLOGUE_FOLLOWER)
    ff = _Framer(tf, connector_mod.PROLOGUE_FOLLOWER, connector_mod.PROLOGUE_LEADER)
    if relay:
        fl.use_relay(b"please relay leader\n")
        ff.use_relay(b"please relay follower\n")
    rl = _Record(fl, make_noise(psk, True), LEADER)
    rf = _Record(ff, make_noise(psk2 or psk, False), FOLLOWER)
    rl.set_role_leader()
    rf.set_role_follower()
    rl.connectionMade()
    rf.connectionMade()
    return (rl, tl), (rf, tf)


def typed(records):
    """records are namedtuples: Ping(x) == Pong(x) == (x,), so compare them together with their types"""
    return [(type(r_).__name__, r_) for r_ in records]


def gen_records(rng, n):
    recs = []
    for _ in range(n):
        t = rng.choice(["kcm", "ping", "pong", "open", "data", "data", "data", "close", "ack"])
        if t == "kcm":
            recs.append(KCM())
        elif t == "ping":
            recs.append(Ping(rng.randbytes(4)))
        elif t == "pong":
            # usually the answer to a ping seen before: the same 4 bytes under the other record type
            earlier = [r_.ping_id for r_ in recs if isinstance(r_, Ping)]
            recs.append(Pong(rng.choice(earlier) if earlier and rng.random() < 0.7 else rng.randbytes(4)))
        elif t == "open":
            recs.append(Open(rng.choice(NUMS), rng.choice(NUMS), rng.choice(SUBPROTOS)))
        elif t == "close":
            recs.append(Close(rng.choice(NUMS), rng.choice(NUMS)))
        elif t == "ack":
            recs.append(Ack(rng.choice(NUMS)))
        else:
            enc = rng.choice(ENC_SIZES) if rng.random() < 0.35 else rng.choice([9, 10, 50, 2000, rng.randint(9, 70000)])
            recs.append(Data(rng.choice(NUMS), rng.choice(NUMS), rng.randbytes(enc - 9)))
    return recs


def feed(record, data, frag, rng):
    """feed bytes to a _Record in the given fragmentation; returns tokens"""
    out = []
    if frag == "all":
        chunks = [data]
    elif frag == "one":
        # single bytes for the first 600 bytes and the last 100, larger pieces in between (cost)
        head, mid, tail = data[:600], data[600:-100] if len(data) > 700 else b"", data[-100:] if len(data) > 700 else data[600:]
        chunks = [head[i:i + 1] for i in range(len(head))]
        i = 0
        while i < len(mid):
            n = rng.choice([1, 2, 3, 4, 5, 6, 7, 4096])
            chunks.append(mid[i:i + n])
            i += n
        chunks += [tail[i:i + 1] for i in range(len(tail))]
    elif frag == "aligned":
        chunks = []
        rest = data
        # prologue first, then frame by frame
        nl = rest.find(b"\n\n")
        if nl >= 0 and rest.startswith(b"Magic-Wormhole"):
            chunks.append(rest[:nl + 2])
            rest = rest[nl + 2:]
        frames, tail = split_frames(rest)
        chunks += frames + ([tail] if tail else [])
    else:
        chunks = []
        i = 0
        while i < len(data):
            n = rng.choice([1, 2, 5, 17, 300, 4096, 65535, 70000])
            chunks.append(data[i:i + n])
            i += n
    for c in chunks:
        if c:
            out.extend(record.add_and_unframe(bytes(c)))
    return out


class _RelayDone(Exception):
    pass


def run_codec(spec):
    rng = random.Random(spec["seed"])
    psk = rng.randbytes(32)
    relay = bool(spec.get("relay"))
    (rl, tl), (rf, tf) = make_record_pair(psk, relay=relay)
    viol = []
    frag = spec["frag"]
    try:
        if relay:
            # both sides talk through a transit relay: each sent its relay handshake and gets `ok\n`; the Leader's
            # `ok` arrives together with the Follower's prologue (the Follower was answered first)
            tl.buf.clear()
            tf.buf.clear()
            feed(rf, b"ok\n", "all", rng)                # follower: ok -> sends its prologue
            fol_prologue = bytes(tf.buf)
            tf.buf.clear()
            toks_l0 = feed(rl, b"ok\n" + fol_prologue, frag, rng)    # leader: ok + prologue in this fragmentation
            tf.buf += b""                                  # (nothing more from the follower yet)
            # the leader has now sent prologue + handshake; hand them to the follower
            toks_f = feed(rf, bytes(tl.buf), frag, rng)
            tl.buf.clear()
            toks_l = toks_l0 + feed(rl, bytes(tf.buf), frag, rng)
            tf.buf.clear()
            if [type(t) for t in toks_f] != [Handshake] or [type(t) for t in toks_l] != [Handshake]:
                return {"violations": [{"key": "C12/codec/relay-handshake-stalled",
                                        "msg": "through a relay, frag=%s: leader tokens %r follower tokens %r (one Handshake each expected)" % (frag, toks_l, toks_f),
                                        "witness": {"spec": spec}}], "nontrivial": None, "counters": {}}
            raise _RelayDone()
        toks_f = feed(rf, bytes(tl.buf), frag, rng)      # follower reads the leader's prologue
        tl.buf.clear()
        toks_l = feed(rl, bytes(tf.buf), frag, rng)      # leader reads prologue -> sends handshake
        tf.buf.clear()
        toks_f += feed(rf, bytes(tl.buf), frag, rng)     # follower reads handshake -> sends its own
        tl.buf.clear()
        toks_l += feed(rl, bytes(tf.buf), frag, rng)
        tf.buf.clear()
    except _RelayDone:
        pass
    except Exception as e:
        # an honest, correctly keyed peer whose prologue/handshake merely arrives in pieces
        return {"violations": [{"key": "C12/codec/honest-prologue-or-handshake-rejected/" + type(e).__name__,
                                "msg": "frag=%s: %r while reading the peer's prologue/handshake" % (frag, e), "witness": {"spec": spec}}],
                "nontrivial": None, "counters": {}}
    if [type(t) for t in toks_f] != [Handshake] or [type(t) for t in toks_l] != [Handshake]:
        return {"violations": [{"key": "C12/codec/handshake-failed", "msg": "%r %r" % (toks_f, toks_l), "witness": {"spec": spec}}],
                "nontrivial": None, "counters": {}}
    total = 0
    sample = []
    for rnd in range(rng.randint(1, 4)):
        for (src, st, dst, name) in ((rl, tl, rf, "L->F"), (rf, tf, rl, "F->L")):
            recs = gen_records(rng, rng.randint(1, 12))
            if spec.get("burst"):
                # a burst of small records that reaches the receiver as one read (many short writes in one reactor turn,
                # the ACKs that come back for them, a replay after a reconnect)
                recs = [rng.choice([Ack(rng.choice(NUMS)), Data(rng.choice(NUMS), rng.choice(NUMS), rng.randbytes(rng.randint(0, 12))),
                                    Close(rng.choice(NUMS), rng.choice(NUMS))]) for _ in range(spec["burst"])]
            for r in recs:
                src.send_record(r)
            wire = bytes(st.buf)
            st.buf.clear()
            try:
                got = feed(dst, wire, frag, rng)
            except Exception as e:
                viol.append({"key": "C12/codec/receiver-raises/" + type(e).__name__, "msg": "%s frag=%s: %r" % (name, frag, e),
                             "witness": {"spec": spec, "records": [type(r).__name__ for r in recs], "sizes": [len(getattr(r, "data", b"")) for r in recs]}})
                break
            total += len(got)
            if typed(got) != typed(recs):
                i = next((j for j in range(min(len(got), len(recs))) if typed([got[j]]) != typed([recs[j]])), min(len(got), len(recs)))
                viol.append({"key": "C12/codec/records-differ", "msg": "%s frag=%s: record #%d: sent %s got %s (sent %d, got %d)" % (
                    name, frag, i, _short(recs[i]) if i < len(recs) else None, _short(got[i]) if i < len(got) else None, len(recs), len(got)),
                    "witness": {"spec": spec}})
                break
            if len(sample) < 3:
                sample.append([_short(r) for r in recs[:4]])
    return {"violations": viol, "nontrivial": ["codec", spec["seed"], frag] if total else None,
            "counters": {"records_roundtripped": total, "frag_" + frag: 1, "codec_through_relay": int(relay), "burst_cases": int(bool(spec.get("burst")))},
            "sample": {"kind": "codec", "frag": frag, "records": sample}}


def _short(r):
    if isinstance(r, Data):
        return "Data(seq=%d, scid=%d, %d bytes)" % (r.seqnum, r.scid, len(r.data))
    return repr(r)[:80]


class Attacker(protocol.Protocol):
    def __init__(self, script):
        self.script = list(script)       # list of bytes to send: first on connect, next on each reply
        self.rx = bytearray()
        self.lost = False

    def connectionMade(self):
        if self.script:
            self.transport.write(self.script.pop(0))

    def dataReceived(self, data):
        self.rx += data
        if self.script:
            nxt = self.script.pop(0)
            if callable(nxt):
                nxt = nxt(self)
            if nxt:
                self.transport.write(nxt)

    def connectionLost(self, reason=None):
        self.lost = True


_surfaced = []   # (what, connection object) for add_candidate / got_record
_l2_sent = []    # (sending DilatedConnectionProtocol, record) at send_record
_l2_got = []     # (receiving Manager, its selected connection, record) at Manager.got_record


def _install_surface_monitor():
    if getattr(_install_surface_monitor, "done", False):
        return
    _install_surface_monitor.done = True
    orig_bp = connector_mod.Connector.build_protocol

    def build_protocol(self, addr, description):
        p = orig_bp(self, addr, description)

        def tracer(old_state, input, new_state):
            if input == "got_kcm":
                _surfaced.append(("kcm->add_candidate", p))
            elif input == "got_record":
                _surfaced.append(("record", p))
            return None
        p.set_trace(tracer)
        return p
    connector_mod.Connector.build_protocol = build_protocol
    from wormhole._dilation import manager as manager_mod
    osr = DilatedConnectionProtocol.send_record

    def send_record(self, record):
        _l2_sent.append((self, record))
        return osr(self, record)
    DilatedConnectionProtocol.send_record = send_record
    ogr = manager_mod.Manager.got_record

    def got_record(self, r):
        # the caller is an output method of the DilatedConnectionProtocol that decoded the record
        import sys
        caller = sys._getframe(1).f_locals.get("self")
        _l2_got.append((self, caller, r))
        return ogr(self, r)
    manager_mod.Manager.got_record = got_record


def run_attack(spec):
    _install_surface_monitor()
    del _surfaced[:]
    world = World(spec["seed"], relay=False)
    rng = world.work_rng
    attack = spec["attack"]
    relay_attack = attack in ("bad-relay-reply", "relay-ok-then-garbage")
    dp = DilatedPair(world, relay=relay_attack)
    attackers = []
    if relay_attack:
        # a fake relay on the relay port
        f = protocol.Factory()

        def build(addr):
            reply = rng.choice([b"nope\n", b"ok", b"OK\n", b"o\n", b"ok \n", rng.randbytes(3) + b"\n"]) if attack == "bad-relay-reply" else b"ok\n" + rng.randbytes(rng.randint(1, 60)) + b"\n\n"
            a = Attacker([b"", reply])
            a.connectionMade = lambda: None
            attackers.append(a)
            return a
        f.buildProtocol = build
        world.reactor.listenTCP(RELAY_PORT, f)
    sch = Scheduler(world, None, strategy="random", chunking=rng.choice(["whole", "mixed"]))
    # wait for a dilation listener to appear
    victim = rng.choice("AB")
    sch.run(1500, until=lambda: any(isinstance(p.factory, connector_mod.InboundConnectionFactory) and dp.manager(victim) is not None and
                                   p.factory._connector._manager is dp.manager(victim) for p in world.reactor.ports.values()) or dp.both_connected())
    port = None
    for pn, p in world.reactor.ports.items():
        if isinstance(p.factory, connector_mod.InboundConnectionFactory) and p.factory._connector._manager is dp.manager(victim):
            port = pn
    fed = 0
    first_len = None
    if not relay_attack and port is not None:
        role = dp.role(victim)
        mine = connector_mod.PROLOGUE_FOLLOWER if role is LEADER else connector_mod.PROLOGUE_LEADER
        theirs = connector_mod.PROLOGUE_LEADER if role is LEADER else connector_mod.PROLOGUE_FOLLOWER
        other_noise = make_noise(rng.randbytes(32), initiator=(role is not LEADER))
        other_noise.start_handshake()

        def framed(b):
            return len(b).to_bytes(4, "big") + b
        if attack == "wrong-prologue":
            script = [rng.choice([b"GET / HTTP/1.0\r\n\r\n", rng.randbytes(50), b"Magic-Wormhole Dilation Handshake v2 Leader\n\n", b"\n\n", mine[:-2] + b"x\n"])]
        elif attack == "truncated-prologue":
            script = [mine[:rng.randint(0, len(mine) - 1)]]
        elif attack == "extended-prologue":
            script = [mine[:-2] + b" extra\n\n"]
        elif attack == "other-role-prologue":
            script = [theirs]
        elif attack == "random-handshake":
            script = [mine + framed(rng.randbytes(rng.choice([0, 1, 31, 48, 49, 200])))]
        elif attack == "other-psk":
            if role is LEADER:
                # victim leads: it sends the first handshake message; answer with ours made with another psk
                def reply(a):
                    try:
                        frames, _ = split_frames(bytes(a.rx)[len(theirs):])
                        other_noise.read_message(frames[0][4:])
                    except Exception:
                        return framed(rng.randbytes(48))
                    return framed(other_noise.write_message())
                script = [mine, reply, framed(rng.randbytes(30))]
            else:
                script = [mine + framed(other_noise.write_message()), framed(rng.randbytes(40))]
        elif attack == "oversized-frame":
            script = [mine + (2 ** 32 - 1).to_bytes(4, "big") + rng.randbytes(100)]
        elif attack == "record-before-kcm":
            script = [mine + framed(rng.randbytes(48)), framed(rng.randbytes(20))]
        else:
            script = [mine + framed(rng.randbytes(48)) + framed(rng.randbytes(60)) + rng.randbytes(30)]
        first_len = len(script[0])
        a = Attacker(script)
        f = protocol.ClientFactory()
        f.buildProtocol = lambda addr: a
        attackers.append(a)
        world.reactor.connectTCP("10.0.7.7", port, f)
    # when was the complete offending unit fed to the victim, and when did the victim hang up?
    timing = {}
    single_unit = attack in ("wrong-prologue", "extended-prologue", "other-role-prologue", "random-handshake",
                             "record-before-kcm", "garbage-after-handshake")
    unit_len = None
    if attackers and not relay_attack and single_unit:
        unit_len = first_len

    def hook():
        if unit_len is None:
            return
        for link in world.reactor.links:
            for e in link.ends:
                vp = unwrap(e.protocol)
                if isinstance(vp, conn_mod.DilatedConnectionProtocol) and isinstance(unwrap(link.ends[1 - e.end].protocol), Attacker):
                    t = timing.setdefault(link.id, {"fed": None, "dropped": None})
                    if t["fed"] is None and e.rx_total >= unit_len:
                        t["fed"] = world.step
                    if t["dropped"] is None and (e.lose_calls or not e.connected):
                        t["dropped"] = world.step
    sch.hook = hook
    sch.run(3000, until=lambda: dp.both_connected() and all(x.lost for x in attackers))
    sch.drain(100.0, 8000, until=lambda: all(x.lost for x in attackers) and dp.both_connected())
    viol = []
    # which victim-side connections talked to an attacker?
    for link in world.reactor.links:
        ps = [unwrap(e.protocol) for e in link.ends]
        if not any(isinstance(p, Attacker) for p in ps):
            continue
        for e in link.ends:
            vp = unwrap(e.protocol)
            if isinstance(vp, conn_mod.DilatedConnectionProtocol):
                att = [p for p in ps if isinstance(p, Attacker)][0]
                sent_all = not att.script or attack == "truncated-prologue"
                complete_unit = attack not in ("truncated-prologue",) and (len(bytes(e.rx_log)) > 0 or relay_attack)
                if e.rx_total:
                    fed += 1
                surfaced = [w for (w, c) in _surfaced if c is vp]
                wit = {"spec": spec, "victim_role": str(dp.role(victim)), "victim_received": bytes(e.rx_log[:120]).hex(),
                       "surfaced": surfaced, "victim_state": state_of(vp), "lose_calls": len(e.lose_calls), "connected": bool(e.connected)}
                if surfaced:
                    viol.append({"key": "C12/attack/unkeyed-input-surfaced/" + attack, "msg": "%s reached connector/manager from an attacker's connection" % surfaced[:3], "witness": wit})
                if complete_unit and e.connected and attack not in ("oversized-frame",):
                    viol.append({"key": "C12/attack/not-dropped/" + attack, "msg": "the victim kept an attacker's connection open after a complete bad %s" % attack, "witness": wit})
    sch.hook = None
    for lid, t in timing.items():
        if t["fed"] is not None and (t["dropped"] is None or t["dropped"] > t["fed"] + 1):
            viol.append({"key": "C12/attack/not-dropped-at-once/" + attack,
                         "msg": "the complete bad %s was fed to the victim at step %s; it hung up at step %s" % (attack, t["fed"], t["dropped"]),
                         "witness": {"spec": spec, "timing": t, "victim_role": str(dp.role(victim))}})
    if not dp.both_connected() and not relay_attack:
        viol.append({"key": "C12/attack/honest-connection-prevented", "msg": "after the attack the honest peers are %s/%s" % (dp.mstate("A"), dp.mstate("B")),
                     "witness": {"spec": spec}})
    dp.a.close()
    dp.b.close()
    sch.drain(120.0, 8000, until=lambda: dp.a.closed and dp.b.closed)
    world.finish()
    return {"violations": viol, "nontrivial": ["attack", attack, spec["seed"]] if fed else None,
            "counters": {"attacks_fed": fed, "attack_" + attack: 1},
            "sample": {"kind": "attack", "attack": attack, "victim": victim, "fed": fed, "attackers_lost": [a.lost for a in attackers]}}


def run_mitm(spec):
    _install_surface_monitor()
    del _surfaced[:]
    del _l2_sent[:]
    del _l2_got[:]
    world = World(spec["seed"])
    rng = world.work_rng
    dp = DilatedPair(world, ping_interval=5.0)
    drv = ScriptDriver(dp, rng, names=("p0",), max_opens=2, max_writes=40,
                       sizes=(1, 50, 3000) if not spec.get("big") else (1, 50, 70000, 131500, (65511, 65560)), late_listen=0.0, close_prob=0.0)
    drv.budget["open"] = {"A": 1, "B": 1}
    sch = Scheduler(world, drv, strategy="random", chunking="whole")
    sch.run(1500, until=dp.both_connected)
    link = dp.selected_link()
    if link is None:
        # nothing has been tampered with yet: two honest, correctly keyed peers on a faultless network
        end0 = sch.drain(120.0, 30000, until=dp.both_connected)
        link = dp.selected_link()
        if link is None and end0 != "steps":
            drops = [x for x in world.reactor.netlog if x[0] in ("abort", "close", "lost")][-6:]
            world.finish()
            return {"violations": [{"key": "C12/e2e/honest-frames-rejected-peers-never-connect",
                                    "msg": "no tampering yet, 120 virtual s: no connection in use (managers %s/%s); the application had written %s" % (
                                        dp.mstate("A"), dp.mstate("B"), "records of up to %d bytes" % max([len(getattr(r_, "data", b"")) for (_, r_) in _l2_sent] or [0])),
                                    "witness": {"spec": spec, "netlog_tail": world.reactor.netlog[-20:], "drops": drops}}],
                    "nontrivial": None, "counters": {}}
    if link is None:
        world.finish()
        return {"inconclusive": "no selected link", "violations": []}
    d = spec["dir"]
    state = {"n": 0, "fired": None, "buf": bytearray()}
    rx_end = link.ends[1 - d]        # direction d goes from end d to end 1-d
    rx_proto = unwrap(rx_end.protocol)

    def pending():
        return bytes(rx_proto._record._framer._buffer) + bytes(link.dirs[d].wire)
    # install the filter at a frame boundary of the stream
    for _ in range(200):
        if not split_frames(pending())[1]:
            break
        sch.step()
    inflight = len(split_frames(pending())[0])
    if split_frames(pending())[1] or not all(e.connected for e in link.ends):
        world.finish()
        return {"violations": [], "nontrivial": None, "counters": {"mitm_not_aligned": 1}}
    base_surfaced = len([1 for (w, c) in _surfaced if c is rx_proto])

    def filt(chunk):
        if chunk is None:
            out = bytes(state["buf"])
            state["buf"].clear()
            return out
        state["buf"] += chunk
        frames, rest = split_frames(bytes(state["buf"]))
        state["buf"] = bytearray(rest)
        out = bytearray()
        for f in frames:
            if spec["frame"] == -1 and state["fired"] is None and len(f) - 4 > 65535:
                # cut the frame after its first Noise message
                body = f[4:]
                b = (65535).to_bytes(4, "big") + body[:65535]
                if spec["field"] == "split":
                    b += (len(body) - 65535).to_bytes(4, "big") + body[65535:]
                state["fired"] = (state["n"], spec["field"], len(f), world.step)
                state["at_frame"] = state["n"]
                state["surfaced_before"] = len([1 for (w, c) in _surfaced if c is rx_proto]) - base_surfaced
                out += b
            elif state["n"] == spec["frame"] and state["fired"] is None:
                b = bytearray(f)
                fld = spec["field"]
                if fld.startswith("inject"):
                    made_up = {"inject-empty": b"", "inject-short": rng.randbytes(rng.randint(1, 15)),
                               "inject-random": rng.randbytes(rng.randint(16, 60)), "inject-two-empty": b""}[fld]
                    b = bytearray(len(made_up).to_bytes(4, "big") + made_up)
                    if fld == "inject-two-empty":
                        b += b"\x00\x00\x00\x00"
                    b += f                     # the genuine frame follows the made-up one
                elif fld == "truncate":
                    b = b[:rng.randrange(4, len(b))] if len(b) > 4 else b
                    # keep the length prefix honest about what follows being short: receiver waits
                elif fld == "length":
                    b[rng.randrange(0, 4)] ^= 1 << rng.randrange(8)
                elif fld == "first-byte":
                    if len(b) > 4:
                        b[4] ^= 0x01
                elif fld == "tag":
                    if len(b) > 5:
                        b[len(b) - 1 - rng.randrange(min(16, len(b) - 4))] ^= 0x40
                else:
                    if len(b) > 4:
                        b[rng.randrange(4, len(b))] ^= 1 << rng.randrange(8)
                state["fired"] = (state["n"], fld, len(f), world.step)
                state["surfaced_before"] = len([1 for (w, c) in _surfaced if c is rx_proto]) - base_surfaced
                out += b
            else:
                out += f
            state["n"] += 1
        return bytes(out)
    link.dirs[d].filter = filt
    sch.run(1200)
    drv.stop = True
    sch.drain(200.0, 20000, until=lambda: state["fired"] is not None and not rx_end.connected and dp.both_connected())
    viol = []
    fed = int(state["fired"] is not None)
    if state["fired"]:
        surfaced_after = [w for (w, c) in _surfaced if c is rx_proto][base_surfaced:]
        # frames before the corrupted one were surfaced 1:1; nothing at or after it may be
        wit = {"spec": spec, "fired": state["fired"], "inflight_at_install": inflight, "surfaced_from_this_connection": surfaced_after[:30],
               "rx_connected": bool(rx_end.connected), "rx_lose_calls": len(rx_end.lose_calls)}
        at = state.get("at_frame", spec["frame"])
        if len(surfaced_after) > at + inflight:
            key = ("C12/mitm/reframed-multi-message-frame-surfaced" if spec["field"].startswith("split")
                   else "C12/mitm/record-at-or-after-corrupted-frame-surfaced/" + spec["field"])
            viol.append({"key": key,
                         "msg": "%d records reached the manager from the connection, frame %d was corrupted (%s)" % (len(surfaced_after), at, spec["field"]),
                         "witness": wit})
        if rx_end.connected:
            # (for the re-framing attacks this is the same mechanism as above: when the remainder happens to parse
            # as a record too, nothing makes the receiver drop the connection)
            viol.append({"key": ("C12/mitm/reframed-multi-message-frame-surfaced" if spec["field"].startswith("split")
                                 else "C12/mitm/not-dropped/" + spec["field"]),
                         "msg": "connection still up after a corrupted frame was fed (%s)" % spec["field"], "witness": wit})
    # order and identity at the L2 -> manager boundary: what a Manager receives from a connection is a prefix
    # of what the peer handed to the other end of that connection (the re-framing finding is keyed above)
    from wormhole._dilation.connection import KCM
    pairs_checked = 0
    if not spec["field"].startswith("split"):
        for l in dp.l2_links():
            ends = [unwrap(e.protocol) for e in l.ends]
            if not all(isinstance(p, DilatedConnectionProtocol) for p in ends):
                continue
            for (tx, rx) in ((ends[0], ends[1]), (ends[1], ends[0])):
                sent = [r for (c, r) in _l2_sent if c is tx and not isinstance(r, KCM)]
                got = [r for (m, c, r) in _l2_got if c is rx]
                if not got:
                    continue
                pairs_checked += 1
                if typed(got) != typed(sent[:len(got)]):
                    i = next((k for k in range(len(got)) if k >= len(sent) or typed([got[k]]) != typed([sent[k]])), 0)
                    viol.append({"key": "C12/mitm/manager-got-records-differ-from-sent",
                                 "msg": "record #%d the manager got from a connection is %s, the peer handed %s to it" % (
                                     i, _short(got[i]), _short(sent[i]) if i < len(sent) else "nothing"),
                                 "witness": {"spec": spec, "got": [_short(r) for r in got[:12]], "sent": [_short(r) for r in sent[:12]]}})
                    break
    dp.a.close()
    dp.b.close()
    sch.drain(120.0, 8000, until=lambda: dp.a.closed and dp.b.closed)
    world.finish()
    return {"violations": viol, "nontrivial": ["mitm", spec["frame"], spec["field"], spec["dir"], spec["seed"]] if fed else None,
            "counters": {"mitm_fed": fed, "mitm_frames_seen": state["n"], "l2_directions_compared": pairs_checked, "reframing_attacks_fed": int(bool(fed and spec["field"].startswith("split")))},
            "sample": {"kind": "mitm", "spec": spec, "fired": state["fired"], "frames": state["n"]}}


def run_case(spec):
    return {"codec": run_codec, "attack": run_attack, "mitm": run_mitm}[spec["kind"]](spec)
