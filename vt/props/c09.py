"""C09 - the mailbox session survives connection loss: nothing lost, nothing repeated."""
from ..mailbox_work import build_case, prefix_violation, trace_digest, events_view, b2s
from ..monitors import MON

PID = "C09"
LEVEL = "fault_enumeration"
RULE = ("baseline exchanges (random config, reordering+duplicating real server) re-executed with a "
        "client-link cut inserted before step k (k swept; A and B; also pairs of cuts), plus random "
        "1-6 cut sequences; cuts discard in-flight bytes in both directions; then a fault-free fair "
        "drain bounded to 300 virtual seconds. Non-trivial = at least one effective cut and >=1 "
        "message each way; distinct = distinct scheduler decision traces.")
ASSUMPTIONS = ["bounded progress: everything must arrive within 300 virtual seconds after the last cut",
               "cuts before a client's first successful open are excluded (documented as fatal)"]
FLOORS = {"quick": {"drops": 300, "complete": 300, "sends_in_closing_window": 20, "lastwords_delivered": 15},
          "thorough": {"drops": 5000, "complete": 5000, "lastwords_delivered": 400}}


def cases(tier, seed, prep=None):
    out = []
    bases = range(4) if tier == "quick" else range(40)
    stride = 3 if tier == "quick" else 1
    for b in bases:
        for who in ("A", "B"):
            for k in range(0, 240, stride):
                out.append({"kind": "sweep", "seed": seed * 7919 + b, "drop_at": k, "who": who,
                            "min_msgs": 1})
                if k % 9 == 0:
                    out.append({"kind": "sweep", "seed": seed * 7919 + b, "drop_at": k, "who": who, "min_msgs": 1,
                                "how": ["blackhole", "server-close"][(k // 9) % 2]})
    # two cuts: second one shortly after the first (during the reconnect / replay)
    nb = 3 if tier == "quick" else 30
    for b in range(nb):
        for k in range(10, 200, 12 if tier == "quick" else 3):
            for gap in (2, 9, 30):
                out.append({"kind": "sweep", "seed": seed * 7919 + 100 + b, "drop_at": k, "who": "AB"[k % 2],
                            "more_drops": [[k + gap, "AB"[(k + gap) % 2]], [k + 2 * gap, "AB"[k % 2]]],
                            "min_msgs": 1})
    # the websocket library gives up on a silent connection (ping timeout) and an API call lands in
    # the window before the client is told
    for i in range(60 if tier == "quick" else 2000):
        out.append({"kind": "pingtimeout", "seed": seed * 1000003 + 560000 + i, "who": "AB"[i % 2], "at": 40 + (i * 7) % 200,
                    "min_msgs": 2})
    # an outage: the server cannot be reached at all for a while (refused connections), so the client makes many
    # failed reconnection attempts in a row before it gets through again
    for i in range(40 if tier == "quick" else 1200):
        out.append({"kind": "outage", "seed": seed * 1000003 + 580000 + i, "who": "AB"[i % 2], "at": 30 + (i * 11) % 200,
                    "seconds": [5, 30, 120, 200, 400, 900][i % 6], "min_msgs": 2})
    # long sessions (70-100 messages each way) with late reconnects: everything the server replays has been seen before
    for i in range(12 if tier == "quick" else 400):
        out.append({"kind": "random", "seed": seed * 1000003 + 590000 + i, "ndrops": [2, 3, 5], "min_msgs": 70, "max_msgs": 100, "max_size": 20,
                    "late_drops": True})
    n_random = 300 if tier == "quick" else 10000
    for i in range(n_random):
        out.append({"kind": "random", "seed": seed * 1000003 + 500000 + i, "ndrops": [1, 2, 3, 4, 5, 6],
                    "min_msgs": 1})
    # "last words": a message submitted while the connection is down (or dying), directly followed by close(); once the
    # client is connected again the message must reach the peer like any other that the server has not echoed
    for i in range(40 if tier == "quick" else 1200):
        out.append({"kind": "lastwords", "seed": seed * 1000003 + 599000 + i, "who": "AB"[i % 2], "how": ["down", "inflight", "unnoticed"][i // 2 % 3], "min_msgs": 1})
    # very long sessions (hundreds of messages each way) with reconnects in the middle: anything keyed by a short
    # per-message tag, a bounded memory or a counter shows only here
    for i in range(4 if tier == "quick" else 60):
        out.append({"kind": "random", "seed": seed * 1000003 + 598000 + i, "ndrops": [2, 3], "min_msgs": 500, "max_msgs": 650, "max_size": 6,
                    "late_drops": True, "very_long": True})
    # one very large message in the session (0.3 - 2 MB)
    for i in range(8 if tier == "quick" else 150):
        out.append({"kind": "random", "seed": seed * 1000003 + 597000 + i, "ndrops": [0, 1, 2], "min_msgs": 1, "max_msgs": 3,
                    "huge": [300000, 530000, 700000, 2000000][i % 4]})
    # other welcomes a conformant server may send (an empty one, one with a motd and a version hint), delegate API
    for i in range(60 if tier == "quick" else 2000):
        who = "ab"[i % 2]
        out.append({"kind": "random", "seed": seed * 1000003 + 595000 + i, "ndrops": [1, 2, 3], "min_msgs": 1,
                    "welcome": [{}, {}, {"motd": "hello"}, {"current_cli_version": "0.0.1", "motd": ""}][i % 4],
                    "cfg_over": {"api_" + who: "delegate"}})
    return out


def run_case(spec):
    sub = dict(spec)
    if spec["kind"] in ("pingtimeout", "outage", "lastwords"):
        sub["kind"] = "plain"
    from ..env import client_link
    from ..monitors import state_of
    world, drv, sch, cfg = build_case(sub, max_msgs=spec.get("max_msgs", 8), max_size=spec.get("max_size", 300))
    rng = world.work_rng
    window_sends = [0]
    if spec["kind"] == "pingtimeout":
        from ..env import client_link, rc_of
        who = drv.app(spec["who"])
        # keep the last planned send of `who` back for the window
        held = {"payload": None}
        plan = drv.plan[spec["who"]]
        if plan:
            held["payload"] = plan.pop()[0]
        state = {"blackholed": False}

        def stall():
            link = client_link(world, who.w)
            if link is not None and rc_of(who.w)._have_made_a_successful_connection:
                world.reactor.blackhole(link)
                state["blackholed"] = True
                drv.drops_done += 1
        sch.faults.append((spec["at"], stall, "blackhole mailbox link of " + spec["who"]))

        def hook():
            ws = rc_of(who.w)._ws
            if state["blackholed"] and held["payload"] is not None and ws is not None and ws.state != ws.STATE_OPEN and not who.close_calls:
                p, held["payload"] = held["payload"], None
                window_sends[0] += 1
                plan.append((p, "any"))
                try:
                    who.send(p)
                except Exception as e:
                    world.escapes.append((world.step, "app", "send in closing window", type(e).__name__, repr(e)[:200], ""))
        sch.hook = hook
        orig_all_sent = drv.all_sent
        drv.all_sent = lambda: orig_all_sent() and held["payload"] is None
    lastwords = {"payload": None, "sent_at": None}
    if spec["kind"] == "lastwords":
        sch.faults = []

        def last_words():
            who_ = drv.app(spec["who"])
            if not drv.all_delivered() or who_.close_calls:
                sch.faults.append((world.step + 15, last_words, "last words (waiting for the exchange to finish)"))
                sch.faults.sort(key=lambda f: f[0])
                return
            payload = b"%s:last-words:" % spec["who"].encode() + rng.randbytes(8)
            if spec["how"] == "down":
                drv.drop(spec["who"])                 # the connection is gone when the application speaks
                who_.send(payload)
                lastwords["state"] = state_of(who_.w._boss._M)
                who_.close()
            elif spec["how"] == "unnoticed":
                # the connection is dead, but nobody has been told yet (the websocket ping timeout finds out later)
                drv.drop(spec["who"], how="blackhole")
                who_.send(payload)
                lastwords["state"] = state_of(who_.w._boss._M)
                who_.close()
            else:
                who_.send(payload)                    # submitted, still in the client's write buffer ...
                link_ = client_link(world, who_.w)
                if link_ is not None:
                    link_.ends[0].outbuf.clear()      # ... when the connection dies
                    world.reactor.cut(link_)
                lastwords["state"] = state_of(who_.w._boss._M)
                who_.close()
            lastwords["payload"] = payload
            lastwords["sent_at"] = world.step
        sch.faults.append((rng.randint(120, 400), last_words, "last words"))
    if spec.get("late_drops"):
        # move the connection losses behind the bulk of the messages
        sch.faults = [(k + 400 + 150 * i, fn, lab) for i, (k, fn, lab) in enumerate(sch.faults)]
    outage = {"over": spec["kind"] != "outage", "attempts_before": 0}
    if spec["kind"] == "outage":
        from ..env import MAILBOX_PORT

        def begin_outage():
            if not drv.both_connected_once():
                # a failure of a client's very first connection is documented as fatal: wait until both are in
                sch.faults.append((world.step + 10, begin_outage, "outage (waiting for the first connections)"))
                sch.faults.sort(key=lambda f: f[0])
                return
            addr = ("10.9.9.1", MAILBOX_PORT)
            outage["attempts_before"] = len([x for x in world.reactor.netlog if x[0] == "refused"])
            world.reactor.refuse.add(addr)
            drv.drop(spec["who"])

            def end_outage():
                world.reactor.refuse.discard(addr)
                outage["over"] = True
            world.reactor.callLater(spec["seconds"], end_outage)
        sch.faults.append((spec["at"], begin_outage, "outage of %d s for %s" % (spec["seconds"], spec["who"])))
    if spec["kind"] == "lastwords":
        sch.run(3000, until=lambda: lastwords["payload"] is not None)
        # the plan now has one more entry: the last words
        drv.plan[spec["who"]].append((lastwords["payload"], "any")) if lastwords["payload"] is not None else None
    else:
        sch.run(1200 if not spec.get("late_drops") else 6000, until=(drv.all_delivered if not spec.get("late_drops") else (lambda: drv.all_delivered() and not sch.faults)))
    if spec["kind"] == "outage":
        sch.drain(spec["seconds"] + 5.0, 40000, until=lambda: outage["over"])
    if spec["kind"] == "pingtimeout":
        # the silent link is only detected after the websocket ping timeout (30 s + 60 s)
        sch.drain(200.0, 20000, until=lambda: held["payload"] is None)
        if held["payload"] is not None and not who.close_calls:
            p0, held["payload"] = held["payload"], None
            plan.append((p0, "any"))
            who.send(p0)
    last_fault_t = world.reactor.seconds()
    # (long sessions replay a mailbox of 150+ messages on every reconnect: they need many more steps per virtual second)
    end = sch.drain(300.0, 12000 if not spec.get("late_drops") else 250000, until=drv.all_delivered)
    t_done = world.reactor.seconds() - last_fault_t
    complete = drv.all_delivered()
    viol = []
    wit = lambda: {"cfg": {k: v for k, v in cfg.items() if not k.startswith("plan")},
                   "A_events": events_view(drv.a), "B_events": events_view(drv.b),
                   "sent_A": [b2s(m) for m in drv.a.sent], "sent_B": [b2s(m) for m in drv.b.sent],
                   "netlog_tail": world.reactor.netlog[-30:], "drain_end": end,
                   "server_errors": world.server_errors[:5]}
    # nothing repeated / altered
    for (rx, tx, name) in ((drv.a, drv.b, "A<-B"), (drv.b, drv.a, "B<-A")):
        pv = prefix_violation(rx.msgs, tx.sent, own=rx.sent)
        if pv:
            viol.append({"key": "C09/repeated-or-altered/" + pv[0], "msg": "%s: %s" % (name, pv[1]),
                         "witness": wit()})
    for app in (drv.a, drv.b):
        kinds = app.kinds()
        for k in ("welcome", "code", "key", "verifier", "versions"):
            if kinds.count(k) > 1:
                viol.append({"key": "C09/event-repeated/" + k, "msg": "%s saw %s %d times" % (app.name, k, kinds.count(k)),
                             "witness": wit()})
        errs = [k for k in kinds if k.endswith("-err") or k == "closed"]
        if errs and app.close_calls and app.close_results and app.close_results[0] == "happy":
            errs = []          # (the application closed it itself, and was told so)
        if errs:
            viol.append({"key": "C09/session-died/" + str(app.first("closed") or app.first(errs[0])),
                         "msg": "%s: wormhole closed by itself after reconnects: %s" % (app.name, errs[:3]),
                         "witness": wit()})
    # nothing lost (bounded progress)
    if not complete and not viol and end == "steps":
        # the step cap, not the 300 virtual seconds, ended the drain: no verdict on this case
        world.finish()
        return {"inconclusive": "step cap reached %.1f virtual s into the final drain" % t_done, "violations": []}
    if not complete and not viol:
        missing = []
        for app in (drv.a, drv.b):
            for k in ("code", "key", "verifier", "versions"):
                if k not in app.kinds():
                    missing.append("%s.%s" % (app.name, k))
        what = "events " + ",".join(missing) if missing else "messages"
        if not drv.all_sent():
            what = "sends never became possible; " + what
        lw_key = None
        if lastwords["payload"] is not None and not missing:
            peer_ = drv.app("B" if spec["who"] == "A" else "A")
            if peer_.msgs == [m_ for m_ in drv.app(spec["who"]).sent if m_ != lastwords["payload"]]:
                # one mechanism, keyed on its own: exactly the message submitted right before close() is missing
                if lastwords.get("state") == "S2B":
                    # close() was written to a connection that had already died without anybody knowing
                    lw_key = "C09/lost/unechoed-message-when-close-was-sent-on-a-dead-connection"
                else:
                    lw_key = "C09/lost/message-queued-while-disconnected-then-close"
        viol.append({"key": lw_key or "C09/lost/" + ("events" if missing else "messages"),
                     "msg": "after the last cut and a %s drain (300 virtual s): %s missing; delivered A=%d/%d B=%d/%d" % (
                         end, what, len(drv.a.msgs), len(drv.b.sent), len(drv.b.msgs), len(drv.a.sent)),
                     "witness": wit()})
    # the real server never had cause to answer `error`
    for (cid, side, err, orig) in world.server_errors:
        viol.append({"key": "C09/server-error/%s/%s" % (orig, err), "msg": "server answered error %r to %r on connection %d" % (err, orig, cid),
                     "witness": wit()})
        break
    # per connection: first command is bind
    for conn in world.server_conns:
        if conn.cmds and conn.cmds[0].get("type") != "bind":
            viol.append({"key": "C09/first-command-not-bind", "msg": "connection %d started with %r" % (conn.conn_id, conn.cmds[0].get("type")),
                         "witness": wit()})
            break
    for e in world.escapes:
        viol.append({"key": "C09/api-call-raises/%s" % e[3], "msg": "%s: %s" % (e[2], e[4]), "witness": wit()})
        break
    # the nameplate: a release that got no answer because the connection dropped is issued again, so once
    # everything has been delivered nobody holds a claim any more
    # (only the nameplate of the code in use: an `allocate` whose reply was lost leaves an orphan the client
    # cannot know about)
    used_np = (drv.a.code or "").split("-")[0]

    def claimed_now():
        return [(n, sd) for (n, sd, c) in world.nameplate_claims() if c and n == used_np]
    still_claimed = claimed_now()
    if complete and still_claimed and not viol:
        sch.drain(30.0, 3000, until=lambda: not claimed_now())
        still_claimed = claimed_now()
        if still_claimed:
            who = ["A" if sd == drv.a.w._boss._side else "B" if sd == drv.b.w._boss._side else "?" for (n, sd) in still_claimed]
            viol.append({"key": "C09/release-not-reissued", "msg": "everything was delivered, yet %s still holds the nameplate claim at the server" % who,
                         "witness": wit()})
    # close politely: the session must also wind down normally after the reconnects
    drv.a.close()
    drv.b.close()
    sch.drain(300.0, 8000, until=lambda: drv.a.closed and drv.b.closed)
    if complete and not viol and not (drv.a.closed and drv.b.closed):
        viol.append({"key": "C09/close-hangs-after-reconnects", "msg": "close() did not complete within 300 virtual s (A closed=%s, B closed=%s)" % (drv.a.closed, drv.b.closed),
                     "witness": wit()})
    world.finish()
    nontrivial = None
    if drv.drops_done and drv.a.msgs and drv.b.msgs:
        nontrivial = trace_digest(sch)
    conns = len(world.server_conns)
    return {
        "violations": viol,
        "nontrivial": nontrivial,
        "counters": {"drops": drv.drops_done, "drops_skipped": drv.drops_skipped, "complete": int(complete),
                     "server_connections": conns, "reconnects": max(0, conns - 2),
                     "delivered": len(drv.a.msgs) + len(drv.b.msgs), "kind_" + spec["kind"]: 1,
                     "notrans_seen": len(MON.notrans), "log_errors_seen": len(MON.errors),
                     "virtual_seconds_to_complete": int(t_done), "sends_in_closing_window": window_sends[0],
                     "refused_reconnect_attempts": (len([x for x in world.reactor.netlog if x[0] == "refused"]) - outage["attempts_before"]) if spec["kind"] == "outage" else 0,
                     **({"lastwords_%s_mailbox_%s" % (spec["how"], lastwords.get("state")): 1,
                         "lastwords_delivered": int(lastwords["payload"] in drv.app("B" if spec["who"] == "A" else "A").msgs)}
                        if spec["kind"] == "lastwords" and lastwords["payload"] is not None else {}),
                     **{"drop_" + k: v for k, v in drv.drop_kinds.items()}},
        "sets": {"cmds_reissued": sorted({"%s" % c.get("type") for conn in world.server_conns[2:] for c in conn.cmds})},
        "sample": {"spec": spec, "cfg": {k: v for k, v in cfg.items() if not k.startswith("plan")},
                   "drops": drv.drops_done, "connections_at_server": conns,
                   "cmds_per_connection": [[c.get("type") for c in conn.cmds] for conn in world.server_conns[:6]],
                   "A_events": [e[1] for e in drv.a.ev], "B_events": [e[1] for e in drv.b.ev],
                   "faults": [t for t in sch.trace if t[0] == "fault"], "drain_end": end},
    }
