"""C20 - peer connection hints are untrusted: never a crash, only valid hints dialled."""
import copy
import json

from ..env import World
from ..sched import Scheduler
from ..transit_work import Result, hints_of
from ..dilation_work import DilatedPair
from ..monitors import MON

from wormhole import transit

PID = "C20"
LEVEL = "exploration"
RULE = ("lists of JSON objects in hint position: random key/value trees and field-wise mutations of valid "
        "hints (type wrong/unknown/missing; hostname non-string; port string/float/negative/huge/missing; "
        "priority string/None/list/dict/NaN-like/bool/integers beyond float range; relay-v1 with hints missing / not a list / containing "
        "non-objects / nested relays / tor hints without Tor; many equal-host entries with incomparable "
        "priorities). Path 1: Transit{Sender,Receiver}.add_connection_hints + connect() on the simulator "
        "(with and without an honest peer listening). Path 2: a dilated pair held in CONNECTING; one "
        "side's Manager sends the list as a real encrypted connection-hints message. Path 3: a dilated pair "
        "that connects, loses its connection (both ends / follower only), reconnects and stops, with hint "
        "lists sent at each of those moments (Manager state at rx_HINTS recorded per instance). Round trip: hints "
        "produced by a listener are fed to the peer. Non-trivial = at least one malformed element was "
        "processed; distinct = distinct hint lists.")
ASSUMPTIONS = ["top-level list elements are JSON objects (dicts); nested positions hold arbitrary JSON values",
               "bool ports and out-of-range integer ports are don't-care for the dial clause"]
FLOORS = {"quick": {"valid_hints_behind_an_unsupported_twin": 120, "path1_cases": 600, "path2_cases": 100, "path3_cases": 100, "rx_hints_in_LONELY": 15, "rx_hints_in_CONNECTED": 30, "rx_hints_in_FLUSHING": 8, "malformed_elements": 1500, "roundtrips": 50, "dials": 400, "tor_refusals": 100, "path4_cases": 30},
          "thorough": {"valid_hints_behind_an_unsupported_twin": 3000, "path1_cases": 40000, "path2_cases": 3000, "path3_cases": 3000, "rx_hints_in_LONELY": 500, "rx_hints_in_CONNECTED": 1000, "rx_hints_in_FLUSHING": 250, "malformed_elements": 90000, "roundtrips": 2500, "dials": 20000, "tor_refusals": 6000, "path4_cases": 1000}}
JUNK = [None, True, False, 0, -1, 1.5, 2 ** 40, "", "str", [], [1, 2], {}, {"a": 1}, "direct-tcp-v1", ["direct-tcp-v1"], {"type": "direct-tcp-v1"}]
HOSTS = ["10.1.1.1", "10.1.1.2", "host.example", "fe80::1", "", " ", "a b", "ünï.example", "x" * 300, "127.0.0.1"]


def valid_direct(rng):
    return {"type": "direct-tcp-v1", "priority": rng.choice([0.0, 1.0, 0, 3, -2.5]), "hostname": rng.choice(HOSTS[:4]), "port": rng.randint(1, 65535)}


def mutate(rng, h):
    h = copy.deepcopy(h)
    m = rng.choice(["type", "hostname", "port", "priority", "drop", "extra", "all"])
    if m == "type":
        h["type"] = rng.choice(JUNK + ["tor-tcp-v1", "relay-v1", "direct-tcp-v2", "DIRECT-TCP-V1"])
    elif m == "hostname":
        h["hostname"] = rng.choice(JUNK + HOSTS)
    elif m == "port":
        h["port"] = rng.choice(JUNK + ["80", 80.0, -5, 0, 65536, 10 ** 12, 10 ** 400])
    elif m == "priority":
        h["priority"] = rng.choice(JUNK + ["high", float("1e308"), -0.0, 10 ** 400, -(10 ** 400), 2 ** 1024, 2 ** 63,
                                           float("nan"), float("inf"), float("-inf")])        # (what json.dumps writes as NaN / Infinity)
    elif m == "drop":
        h.pop(rng.choice(sorted(h)), None)
    elif m == "extra":
        h[rng.choice(["x", "hints", "", "priority "])] = rng.choice(JUNK)
    else:
        for k in list(h):
            h[k] = rng.choice(JUNK)
    return h


def random_tree(rng, depth=0):
    x = rng.random()
    if depth > 2 or x < 0.4:
        return rng.choice(JUNK)
    if x < 0.7:
        return {rng.choice(["type", "hostname", "port", "priority", "hints", "k"]): random_tree(rng, depth + 1) for _ in range(rng.randint(0, 4))}
    return [random_tree(rng, depth + 1) for _ in range(rng.randint(0, 3))]


def gen_hints(rng):
    out = []
    # mostly short lists; one in ten is long (dozens of entries, as a peer with many interfaces or a hostile one sends)
    for _ in range(rng.randint(1, 7) if rng.random() < 0.9 else rng.randint(25, 90)):
        k = rng.choice(["valid", "mut", "mut", "relay", "relay-bad", "tree", "tor", "samehost", "nonobj"])
        if k == "valid":
            out.append(valid_direct(rng))
        elif k == "mut":
            out.append(mutate(rng, valid_direct(rng)))
        elif k == "relay":
            def sub():
                h = rng.choice([valid_direct(rng), mutate(rng, valid_direct(rng))])
                if rng.random() < 0.3:
                    # the same shapes under the other TCP hint type (one parser, two types)
                    h = dict(h, type="tor-tcp-v1")
                return h
            out.append({"type": "relay-v1", "hints": [sub() for _ in range(rng.randint(0, 3))]})
            if rng.random() < 0.5:
                # a second, well-formed relay with another priority to be ordered against the first
                out.append({"type": "relay-v1", "hints": [dict(valid_direct(rng), priority=rng.choice([0.0, 2.0, 7]))]})
        elif k == "relay-bad":
            h = {"type": "relay-v1"}
            c = rng.choice(["missing", "notlist", "nonobj", "nested", "prio"])
            if c == "notlist":
                h["hints"] = rng.choice([None, 5, "hints", {"type": "direct-tcp-v1"}, True, 1.5])
            elif c == "nonobj":
                h["hints"] = [rng.choice(JUNK) for _ in range(rng.randint(1, 3))] + [valid_direct(rng)]
            elif c == "nested":
                h["hints"] = [{"type": "relay-v1", "hints": [valid_direct(rng)]}, valid_direct(rng)]
            elif c == "prio":
                h["hints"] = [dict(valid_direct(rng), priority=rng.choice([None, "x", [1], {"p": 1}])), dict(valid_direct(rng), priority=rng.choice(["y", 2, None]))]
            out.append(h)
        elif k == "nonobj":
            # something in hint position that is no JSON object at all (a string, a number, null, a list)
            out.append(rng.choice([x_ for x_ in JUNK if not isinstance(x_, dict)]))
        elif k == "tree":
            t = random_tree(rng)
            out.append(t if isinstance(t, dict) else {"type": t})
        elif k == "tor":
            t = {"type": "tor-tcp-v1", "priority": 1.0, "hostname": "abc.onion", "port": rng.randint(1, 65535)}
            if rng.random() < 0.5:
                t = dict(mutate(rng, t), type="tor-tcp-v1")
            out.append(t)
        else:
            host = rng.choice(HOSTS[:3])
            for p in rng.sample([None, "a", 1, 2.5, [1], {"x": 1}, True], 3):
                out.append({"type": "direct-tcp-v1", "priority": p, "hostname": host, "port": rng.randint(1, 65535)})
    return out


def add_tor_twins(rng, hints):
    """a field-wise mutation that keeps its original: in front of some well-formed direct-tcp-v1 hints (top level or inside
    a relay) the same fields appear once more under the type tor-tcp-v1 (a peer reachable both ways says so in this order).
    Without Tor the twin is an unsupported hint; it must not cost the supported one its connection attempt.
    Returns the (host, port) targets that were given a twin."""
    twins = set()

    def good(h):
        return isinstance(h, dict) and h.get("type") == "direct-tcp-v1" and h.get("hostname") in HOSTS[:4] and isinstance(h.get("port"), int) \
            and not isinstance(h.get("port"), bool) and 1 <= h["port"] <= 65535 and isinstance(h.get("priority"), (int, float)) and not isinstance(h.get("priority"), bool) \
            and h["priority"] == h["priority"] and abs(h["priority"]) != float("inf")

    def walk(lst, top=True):
        i = 0
        while i < len(lst):
            h = lst[i]
            if good(h) and rng.random() < 0.3:
                lst.insert(i, dict(h, type="tor-tcp-v1"))
                twins.add((h["hostname"], h["port"]))
                i += 1
            elif top and isinstance(h, dict) and h.get("type") == "relay-v1" and isinstance(h.get("hints"), list):
                walk(h["hints"], top=False)       # (a relay inside a relay is no hint: nothing in it counts)
            i += 1
    walk(hints)
    return twins


class FakeTor:
    """what wormhole needs of txtorcon.Tor: stream_via() refuses non-public numeric addresses with ValueError
    (txtorcon's own predicate) and otherwise gives an endpoint (here: straight to the simulated network)"""

    def __init__(self, reactor):
        self._reactor = reactor
        self.asked = []
        self.refused = 0

    def stream_via(self, host, port, tls=False, socks_endpoint=None):
        from txtorcon.controller import _is_non_public_numeric_address
        from twisted.internet.endpoints import HostnameEndpoint
        self.asked.append((host, port))
        if _is_non_public_numeric_address(host):
            self.refused += 1
            raise ValueError("'{}' isn't going to work over Tor".format(host))
        return HostnameEndpoint(self._reactor, host, port)


def allowed_targets(hints, tor=False):
    """(host, port) pairs that may legitimately be dialled, by an independent reading of the rule:
    string hostname, integer port, supported type (direct-tcp-v1; relay-v1 sub-hints likewise)"""
    ok = set()
    bad = 0

    def one(h):
        nonlocal bad
        if isinstance(h, dict) and h.get("type") in (("direct-tcp-v1", "tor-tcp-v1") if tor else ("direct-tcp-v1",)) and isinstance(h.get("hostname"), str) and isinstance(h.get("port"), int) \
                and not isinstance(h.get("port"), bool) and 0 <= h["port"] <= 65535:
            ok.add((h["hostname"], h["port"]))
        else:
            bad += 1
    for h in hints:
        if isinstance(h, dict) and h.get("type") == "relay-v1":
            sub = h.get("hints")
            if isinstance(sub, list):
                for s in sub:
                    one(s)
            else:
                bad += 1
        else:
            one(h)
    return ok, bad


BAD_EXC = ("TypeError", "AttributeError", "KeyError", "ValueError", "IndexError", "AssertionError", "NameError", "UnboundLocalError")


def cases(tier, seed, prep=None):
    q = tier == "quick"
    b = seed * 1000003 + 2000000
    out = [{"kind": "transit", "seed": b + i, "honest": i % 3 == 0, "receiver": i % 2 == 0, "tor": i % 5 == 4} for i in range(700 if q else 45000)]
    out += [{"kind": "dilation", "seed": b + 100000 + i} for i in range(130 if q else 3500)]
    out += [{"kind": "dilstates", "seed": b + 150000 + i} for i in range(120 if q else 3500)]
    out += [{"kind": "roundtrip", "seed": b + 200000 + i} for i in range(60 if q else 2600)]
    out += [{"kind": "clitext", "seed": b + 250000 + i} for i in range(40 if q else 1200)]
    return out


def run_transit(spec):
    world = World(spec["seed"])
    rng = world.work_rng
    r = world.reactor
    hints = gen_hints(rng)
    twins = add_tor_twins(rng, hints) if spec["seed"] % 3 == 1 else set()
    tor = FakeTor(r) if spec.get("tor") else None
    if tor is not None:
        # onion-ish hints with the kinds of host a peer may put there (names, public and non-public literals)
        for _ in range(rng.randint(1, 4)):
            hints.insert(rng.randint(0, len(hints)), {"type": rng.choice(["tor-tcp-v1", "tor-tcp-v1", "direct-tcp-v1"]), "priority": rng.choice([0.0, 1.0, 2]),
                                                      "hostname": rng.choice(["127.0.0.1", "10.1.1.1", "192.168.1.9", "0.0.0.0", "::1", "fe80::1", "abcdefgh.onion", "host.example", "8.8.8.8"]),
                                                      "port": rng.randint(1, 65535)})
        if rng.random() < 0.4:
            hints.append({"type": "relay-v1", "hints": [{"type": "tor-tcp-v1", "priority": 1.0, "hostname": rng.choice(["10.1.1.2", "::1", "relay.onion"]), "port": 4001}]})
    allowed, bad = allowed_targets(hints, tor=tor is not None)
    key = rng.randbytes(32)
    cls = transit.TransitReceiver if spec["receiver"] else transit.TransitSender
    t = cls(None, no_listen=True, tor=tor, reactor=r)
    t.set_transit_key(key)
    hints_of(t)           # the application always asks for its own hints before connect()
    peer = None
    peer_hints = []
    if spec["honest"]:
        pcls = transit.TransitSender if spec["receiver"] else transit.TransitReceiver
        peer = pcls(None, no_listen=False, reactor=r)
        peer.set_transit_key(key)
        peer_hints = hints_of(peer)
        hints = hints + peer_hints if rng.random() < 0.5 else peer_hints + hints
        allowed |= allowed_targets(peer_hints)[0]
    # everything else is unreachable: refused or silent
    for (h, p) in allowed:
        if not any(ph.get("hostname") == h and ph.get("port") == p for ph in peer_hints if isinstance(ph, dict)):
            (r.refuse if rng.random() < 0.5 else r.unroutable).add((h, p))
    viol = []
    wit = {"spec": spec, "hints": json.loads(json.dumps(hints, default=repr))}
    try:
        t.add_connection_hints(hints)
    except Exception as e:
        import traceback
        fn = traceback.extract_tb(e.__traceback__)[-1]
        viol.append({"key": "C20/transit/add_connection_hints-raises/%s/%s" % (type(e).__name__, fn.name),
                     "msg": "add_connection_hints raised %r at %s:%d" % (e, fn.filename.split("/")[-1], fn.lineno), "witness": wit})
    dials_before = len(r.dials)
    try:
        res = Result(t.connect())
        pres = Result(peer.connect()) if peer is not None else None
    except Exception as e:
        import traceback
        fn = traceback.extract_tb(e.__traceback__)[-1]
        viol.append({"key": "C20/transit/connect-raises/%s/%s" % (type(e).__name__, fn.name), "msg": repr(e), "witness": wit})
        res = pres = None
    sch = Scheduler(world, None, strategy="random", chunking="whole")
    if res is not None:
        sch.run(4000, until=lambda: res.done and (pres is None or pres.done))
        sch.drain(200.0, 20000, until=lambda: res.done and (pres is None or pres.done))
        if res.failure is not None and res.failure.type.__name__ in BAD_EXC and "invalid hostname" not in repr(res.failure.value):
            tb = res.failure.getTraceback()[-400:]
            viol.append({"key": "C20/transit/connect-fails-with/%s/%s" % (res.failure.type.__name__, (res.failure.frames[-1][0] if res.failure.frames else "?")),
                         "msg": "connect() failed with %r" % (res.failure.value,), "witness": dict(wit, traceback=tb)})
        if not res.done:
            viol.append({"key": "C20/transit/connect-hangs", "msg": "connect() pending after the deadline", "witness": wit})
        if peer is not None and tor is None and res.done and res.value is None and not viol:
            viol.append({"key": "C20/transit/honest-hints-ignored", "msg": "an honest peer was listening and its hints were in the list, yet connect() failed with %r" % (res.failure.value if res.failure else None),
                         "witness": wit})
    dialled = {(h, p) for (h, p, _) in r.dials[dials_before:]}
    if peer is None and tor is None and res is not None and res.done and not viol:
        # nobody could win early, so every contender has had its attempt: a supported hint must not have lost its own
        # because an unsupported sibling with the same fields came first
        for (h, p) in sorted(twins - dialled):
            viol.append({"key": "C20/transit/valid-hint-not-dialled/shadowed-by-an-unsupported-twin", "msg": "%s:%d is named by a well-formed direct-tcp-v1 hint that follows a tor-tcp-v1 hint with the same fields; it was never dialled (dialled: %s)" % (
                h, p, sorted(dialled, key=repr)[:6]), "witness": wit})
            break
    for (h, p) in sorted(dialled - allowed, key=repr):
        viol.append({"key": "C20/transit/dialled-invalid-hint", "msg": "dialled %r:%r which no valid hint named" % (h, p), "witness": wit})
        break
    for (tn, rep, why, frame) in MON.errors:
        if tn in BAD_EXC:
            viol.append({"key": "C20/transit/logged/%s/%s" % (tn, frame), "msg": "%s %s" % (tn, rep), "witness": wit})
            break
    world.finish()
    return {"violations": viol, "nontrivial": json.dumps(wit["hints"], sort_keys=True)[:300] if bad else None,
            "counters": {"path1_cases": 1, "tor_cases": int(tor is not None), "tor_refusals": tor.refused if tor else 0, "malformed_elements": bad, "dials": len(dialled), "valid_hints_behind_an_unsupported_twin": len(twins), "honest_connected": int(bool(peer is not None and res is not None and res.value is not None))},
            "sample": {"kind": "transit", "hints": wit["hints"][:4], "dialled": sorted(dialled, key=repr)[:5],
                       "result": (repr(res.failure.value)[:80] if res is not None and res.failure else "connected") if res is not None else None}}


def run_dilation(spec):
    world = World(spec["seed"])
    rng = world.work_rng
    r = world.reactor
    dp = DilatedPair(world, no_listen=(True, True))
    sch = Scheduler(world, None, strategy="random", chunking="whole")
    sch.run(2000, until=lambda: dp.mstate("A") == "CONNECTING" and dp.mstate("B") == "CONNECTING")
    if not (dp.mstate("A") == "CONNECTING" and dp.mstate("B") == "CONNECTING"):
        world.finish()
        return {"inconclusive": "pair did not reach CONNECTING/CONNECTING: %s %s" % (dp.mstate("A"), dp.mstate("B")), "violations": []}
    viol = []
    total_bad = 0
    allowed = set()
    twins = set()
    all_hints = []
    errs_before = len(MON.errors)
    for rnd in range(rng.randint(1, 3)):
        hints = gen_hints(rng)
        if spec["seed"] % 3 == 1:
            twins |= add_tor_twins(rng, hints)
        ok, bad = allowed_targets(hints)
        allowed |= ok
        total_bad += bad
        all_hints.append(json.loads(json.dumps(hints, default=repr)))
        for (h, p) in ok:
            (r.refuse if rng.random() < 0.5 else r.unroutable).add((h, p))
        try:
            dp.manager("A").send_hints(hints)
        except Exception as e:
            world.finish()
            return {"inconclusive": "harness could not send the hints: %r" % e, "violations": []}
        sch.run(400)
    sch.drain(10.0, 3000)
    wit = {"spec": spec, "hints": all_hints, "B_events": dp.b.kinds(), "B_state": dp.mstate("B"), "errors": [e[:3] for e in MON.errors[errs_before:]][:5]}
    dead = [k for k in dp.b.kinds() if k.endswith("-err") or k == "closed"]
    if dead:
        viol.append({"key": "C20/dilation/wormhole-aborted/%s" % (dp.b.first(dead[0]),), "msg": "the receiving wormhole died: %s" % dead[:3], "witness": wit})
    for (tn, rep, why, frame) in MON.errors[errs_before:]:
        if tn == "ValueError" and "invalid hostname" in rep:
            continue      # Twisted's endpoint refusing to dial a syntactically bad name: a failed attempt, logged
        viol.append({"key": "C20/dilation/logged/%s/%s" % (tn, frame), "msg": "%s %s (%s)" % (tn, rep, why), "witness": wit})
        break
    for e in world.escapes:
        viol.append({"key": "C20/dilation/escaped/%s" % e[3], "msg": e[4], "witness": dict(wit, traceback=e[5])})
        break
    dialled = {(h, p) for (h, p, _) in r.dials if p != 4000}
    if not viol:
        for (h, p) in sorted(twins - dialled):
            viol.append({"key": "C20/dilation/valid-hint-not-dialled/shadowed-by-an-unsupported-twin", "msg": "%s:%d is named by a well-formed direct-tcp-v1 hint that follows a tor-tcp-v1 hint with the same fields; it was never dialled (dialled: %s)" % (
                h, p, sorted(dialled, key=repr)[:6]), "witness": wit})
            break
    for (h, p) in sorted(dialled - allowed, key=repr):
        viol.append({"key": "C20/dilation/dialled-invalid-hint", "msg": "dialled %r:%r which no valid hint named" % (h, p), "witness": wit})
        break
    if dp.mstate("B") != "CONNECTING":
        viol.append({"key": "C20/dilation/manager-left-CONNECTING/%s" % dp.mstate("B"), "msg": "", "witness": wit})
    dp.a.close()
    dp.b.close()
    sch.drain(120.0, 10000, until=lambda: dp.a.closed and dp.b.closed)
    world.finish()
    return {"violations": viol, "nontrivial": json.dumps(all_hints, sort_keys=True)[:300] if total_bad else None,
            "counters": {"path2_cases": 1, "malformed_elements": total_bad, "dials": len(dialled), "valid_hints_behind_an_unsupported_twin": len(twins)},
            "sample": {"kind": "dilation", "hints": all_hints[0][:3], "dialled": sorted(dialled, key=repr)[:5], "B_state": dp.mstate("B")}}


def run_dilstates(spec):
    """hint messages reaching a Manager in every state of its life: before the connection, while
    CONNECTED, right after the peer connection is lost (Follower LONELY / Leader FLUSHING), during the
    reconnect, and while stopping"""
    world = World(spec["seed"])
    rng = world.work_rng
    r = world.reactor
    dp = DilatedPair(world, no_listen=(rng.random() < 0.2, False))
    sch = Scheduler(world, None, strategy=rng.choice(["random", "netfirst", "timersfirst"]), chunking="whole")
    rx_states = []
    traced = set()

    def trace_managers():
        for n in "AB":
            m = dp.manager(n)
            if m is not None and n not in traced:
                traced.add(n)

                def tracer(old, inp, new, n=n):
                    if inp == "rx_HINTS":
                        rx_states.append((n, old))
                    return None
                m.set_trace(tracer)
    sch.hook = trace_managers
    allowed = set()
    all_hints = []
    total_bad = [0]
    errs_before = len(MON.errors)

    def inject(frm):
        m = dp.manager(frm)
        if m is None or dp.apps[frm].closed:
            return
        hints = gen_hints(rng)
        ok, bad = allowed_targets(hints)
        allowed.update(ok)
        total_bad[0] += bad
        all_hints.append(json.loads(json.dumps(hints, default=repr)))
        for (h, p) in ok:       # generated hosts are never this world's own addresses
            (r.refuse if rng.random() < 0.5 else r.unroutable).add((h, p))
        try:
            m.send_hints(hints)
        except Exception as e:
            world.escapes.append((world.step, "app", "send_hints", type(e).__name__, repr(e)[:200], ""))

    plan = rng.choice(["early", "connected", "cut", "cut", "cut-one-side", "reconnect", "close"])
    if plan == "early":
        for _ in range(rng.randint(1, 3)):
            sch.run(rng.randint(1, 120))
            inject(rng.choice("AB"))
    sch.run(3000, until=dp.both_connected)
    if not dp.both_connected():
        world.finish()
        return {"inconclusive": "dilation did not connect", "violations": []}
    lead = dp.leader()
    fol = "B" if lead == "A" else "A"
    if plan == "connected":
        for _ in range(rng.randint(1, 3)):
            inject(rng.choice("AB"))
            sch.run(rng.randint(1, 60))
    elif plan in ("cut", "cut-one-side", "reconnect"):
        link = dp.selected_link()
        if link is not None:
            if plan == "cut-one-side":
                # only the follower notices at once; the leader keeps sending on a dead link
                from twisted.internet import error
                from twisted.python import failure
                from ..simnet import unwrap
                r.blackhole(link)
                for e in link.ends:
                    if dp.party_of(unwrap(e.protocol)) == fol and e.connected:
                        e.outbuf.clear()
                        e._connection_lost(failure.Failure(error.ConnectionLost()))
            else:
                r.cut(link)
            # a hints message that was already on its way through the mailbox when the link died
            inject(lead)
            if rng.random() < 0.5:
                inject(fol)
            if plan == "reconnect":
                for _ in range(rng.randint(1, 3)):
                    sch.run(rng.randint(1, 40))
                    inject(rng.choice("AB"))
    elif plan == "close":
        who = rng.choice("AB")
        other = "B" if who == "A" else "A"
        dp.apps[who].close()
        inject(other)
        sch.run(rng.randint(1, 30))
        inject(other)
    sch.run(600)
    sch.drain(60.0, 20000, until=(lambda: dp.both_connected()) if plan != "close" else None)
    wit = {"spec": spec, "plan": plan, "hints": all_hints[:3], "rx_states": rx_states, "A_events": dp.a.kinds(), "B_events": dp.b.kinds(),
           "states": {n: dp.mstate(n) for n in "AB"}, "errors": [e[:3] for e in MON.errors[errs_before:]][:5]}
    viol = []
    for n in "AB":
        app = dp.apps[n]
        if app.close_calls:
            continue
        dead = [k for k in app.kinds() if k.endswith("-err") or k == "closed"]
        if dead:
            viol.append({"key": "C20/dilation/wormhole-aborted/%s" % (app.first(dead[0]),),
                         "msg": "%s died after hints reached its Manager in states %s: %s" % (n, [s for (x, s) in rx_states if x == n], dead[:3]), "witness": wit})
    for (tn, rep, why, frame) in MON.errors[errs_before:]:
        if tn == "ValueError" and "invalid hostname" in rep:
            continue
        viol.append({"key": "C20/dilation/logged/%s/%s" % (tn, frame), "msg": "%s %s (%s)" % (tn, rep, why), "witness": wit})
        break
    for e in world.escapes:
        viol.append({"key": "C20/dilation/escaped/%s" % e[3], "msg": e[4], "witness": dict(wit, traceback=e[5])})
        break
    if plan in ("cut", "cut-one-side", "reconnect", "connected", "early") and not dp.both_connected() and not viol:
        viol.append({"key": "C20/dilation/not-connected-after-hints/%s-%s" % (dp.mstate("A"), dp.mstate("B")),
                     "msg": "plan %s: 60 virtual s after the last hints message the Managers are %s/%s" % (plan, dp.mstate("A"), dp.mstate("B")), "witness": wit})
    dp.a.close()
    dp.b.close()
    sch.drain(120.0, 10000, until=lambda: dp.a.closed and dp.b.closed)
    world.finish()
    cnt = {"path3_cases": 1, "malformed_elements": total_bad[0], "rx_hints_observed": len(rx_states), "plan_" + plan: 1}
    for (n, st) in rx_states:
        cnt["rx_hints_in_" + str(st)] = cnt.get("rx_hints_in_" + str(st), 0) + 1
    return {"violations": viol, "nontrivial": [plan, sorted(set(map(str, rx_states))), json.dumps(all_hints, sort_keys=True)[:200]] if rx_states else None,
            "counters": cnt, "sets": {"manager_states_receiving_hints": sorted({str(st) for (n, st) in rx_states})},
            "sample": {"kind": "dilstates", "plan": plan, "rx_states": rx_states[:8], "states": {n: dp.mstate(n) for n in "AB"}}}


def run_roundtrip(spec):
    world = World(spec["seed"])
    rng = world.work_rng
    r = world.reactor
    world.local_addresses = ["127.0.0.1"] + rng.sample(["10.0.0.1", "10.0.0.2", "10.0.0.3", "192.168.7.9"], rng.randint(1, 3))
    key = rng.randbytes(32)
    viol = []
    # the listener's port is whatever the kernel hands out: the ends of the range are ports like any other
    edge_port = rng.choice([None, None, 65535, 65534, 1, 1024, 49152, 32768])
    if edge_port is not None:
        r.port_plan = [edge_port]
    if rng.random() < 0.5:
        rc = transit.TransitReceiver(None, no_listen=False, reactor=r)
        rc.set_transit_key(key)
        hints = hints_of(rc)
        s = transit.TransitSender(None, no_listen=True, reactor=r)
        s.set_transit_key(key)
        hints_of(s)
        s.add_connection_hints(json.loads(json.dumps(hints)))
        lports = [x[1] for x in r.netlog if x[0] == "listen" and x[1] != 4000]
        want = {(h, lports[0]) for h in world.local_addresses if h != "127.0.0.1"} if lports else set()
        n0 = len(r.dials)
        rs, rr = Result(s.connect()), Result(rc.connect())
        sch = Scheduler(world, None, strategy="random", chunking="whole")
        sch.run(3000, until=lambda: rs.done and rr.done)
        dialled = {(h, p) for (h, p, _) in r.dials[n0:]}
        path = "transit"
        ok = rs.value is not None and rr.value is not None
    else:
        dp = DilatedPair(world, no_listen=(False, True))
        sch = Scheduler(world, None, strategy="random", chunking="whole")
        sch.run(4000, until=dp.both_connected)
        ports = [x[1] for x in r.netlog if x[0] == "listen" and x[1] != 4000]
        want = {(h, ports[0]) for h in world.local_addresses if h != "127.0.0.1"} if ports else set()
        dialled = {(h, p) for (h, p, _) in r.dials if p != 4000}
        path = "dilation"
        ok = dp.both_connected()
        dp.a.close()
        dp.b.close()
        sch.drain(120.0, 8000, until=lambda: dp.a.closed and dp.b.closed)
    wit = {"spec": spec, "path": path, "addresses": world.local_addresses, "want": sorted(want), "dialled": sorted(dialled, key=repr)}
    if dialled != want:
        viol.append({"key": "C20/roundtrip/%s/dialled-differs" % path, "msg": "listener advertised %s, the peer dialled %s" % (sorted(want), sorted(dialled, key=repr)), "witness": wit})
    if not ok:
        viol.append({"key": "C20/roundtrip/%s/no-connection" % path, "msg": "", "witness": wit})
    world.finish()
    return {"violations": viol, "nontrivial": [path, sorted(want)], "counters": {"roundtrips": 1, "dials": len(dialled), "roundtrips_on_port_65535_or_65534": int(edge_port in (65535, 65534) and any(p_ == edge_port for (_, p_) in want))},
            "sample": {"kind": "roundtrip", "path": path, "want": sorted(want), "dialled": sorted(dialled, key=repr)}}


def run_clitext(spec):
    """path 4: the real `wormhole send --text` against a peer that sends a transit message with generated hints although
    nothing will be transferred over transit: the message must be delivered and the sender must report success"""
    from twisted.internet import defer
    from wormhole import create
    from wormhole.util import dict_to_bytes, bytes_to_dict
    from wormhole.cli import cmd_send
    from ..cli_work import mkargs, outcome
    from ..env import URL
    world = World(spec["seed"])
    rng = world.work_rng
    r = world.reactor
    hints = gen_hints(rng)
    _, bad = allowed_targets(hints)
    code = "%d-clitext-%d" % (rng.randint(1, 900), rng.randint(1, 9))
    got = []

    @defer.inlineCallbacks
    def peer():
        w = create("lothar.com/wormhole/text-or-file-xfer", URL, r)
        w.set_code(code)
        try:
            yield w.get_verifier()
            w.send_message(dict_to_bytes({"transit": {"abilities-v1": rng.choice([[], [{"type": "direct-tcp-v1"}], "x", None]), "hints-v1": hints}}))
            while True:
                m = bytes_to_dict((yield w.get_message()))
                if "offer" in m:
                    got.append(m["offer"])
                    w.send_message(dict_to_bytes({"answer": {"message_ack": "ok"}}))
                    break
        finally:
            try:
                yield w.close()
            except Exception:
                pass
    sa = mkargs(text="hello from the sender", code=code)
    cmd_send.reactor = r
    rs = Result(cmd_send.Sender(sa, r).go())
    rp = Result(peer())
    sch = Scheduler(world, None, strategy="random", chunking="whole")
    sch.run(4000, until=lambda: rs.done and rp.done)
    sch.drain(200.0, 20000, until=lambda: rs.done and rp.done)
    viol = []
    wit = {"spec": spec, "hints": json.loads(json.dumps(hints, default=repr))[:8], "sender": outcome(rs), "sender_err": repr(rs.failure.value)[:200] if rs.failure else None,
           "stderr": sa.stderr.getvalue()[-300:]}
    if outcome(rs) != "success":
        fr = rs.failure.frames[-1] if rs.failure is not None and rs.failure.frames else ("?",)
        viol.append({"key": "C20/cli-text/aborted-by-peer-transit-message/%s/%s" % (outcome(rs), fr[0]),
                     "msg": "`wormhole send --text` ended with %s after the peer sent a transit message with %d hint entries" % (wit["sender_err"], len(hints)), "witness": wit})
    elif not got or got[0].get("message") != "hello from the sender":
        viol.append({"key": "C20/cli-text/message-not-delivered", "msg": repr(got)[:200], "witness": wit})
    world.finish()
    return {"violations": viol, "nontrivial": json.dumps(wit["hints"], sort_keys=True)[:300],
            "counters": {"path4_cases": 1, "malformed_elements": bad}, "sample": {"kind": "clitext", "sender": outcome(rs)}}


def run_case(spec):
    return {"transit": run_transit, "dilation": run_dilation, "dilstates": run_dilstates, "roundtrip": run_roundtrip, "clitext": run_clitext}[spec["kind"]](spec)
