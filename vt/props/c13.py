"""C13 - subchannels open once, close once, and honour the subprotocol contract."""
from ..env import World
from ..sched import Scheduler
from ..dilation_work import DilatedPair, ScriptDriver, stream_check, HalfRecProto, RecFactory
from ..mailbox_work import trace_digest
from ..monitors import MON, state_of

import wormhole._dilation.subchannel as sc_mod

PID = "C13"
LEVEL = "exploration"
RULE = ("two real dilated wormholes; random interleavings of listener_for(name).listen, "
        "connector_for(name).connect, writes, loseConnection / loseWriteConnection on both sides over "
        "1-4 subprotocol names; listeners registered before and after the OPEN arrives; "
        "expected_subprotocols unset or a random subset per side; normal and half-closeable protocols; "
        "simultaneous closes; writes after close; occasional L2 link cuts. Every SubChannel created on "
        "either side is recorded (its id). Non-trivial = at least one subchannel was opened and closed; "
        "distinct = scheduler decision traces.")
ASSUMPTIONS = ["Noise stand-in", "bounded progress: 300 virtual seconds"]
FLOORS = {"quick": {"half_closeable_protocols_judged_per_direction": 200, "subchannels": 500, "closes": 200, "writes_after_close": 100, "writes_right_after_close": 300, "half_closed_subchannels_at_wormhole_close": 60, "undeclared_opens": 40, "late_listens": 40, "connects_around_wormhole_close": 200},
          "thorough": {"half_closeable_protocols_judged_per_direction": 4000, "subchannels": 15000, "closes": 6000, "writes_after_close": 3000, "writes_right_after_close": 9000, "half_closed_subchannels_at_wormhole_close": 2000, "undeclared_opens": 1200, "late_listens": 1200, "connects_around_wormhole_close": 6000}}
# what an application writes after it has closed: text, and now and then nothing at all (an empty chunk of a stream it copies)
LATE_PAYLOADS = [b"after close", b"after close", b""]
NAMES = ["p0", "p1", "ünï-proto", "x" * 40]

_created = []
_orig_init = sc_mod.SubChannel.__init__          # (the attrs-generated constructor: there whatever else the class has)


def _record_init(self, *a, **kw):
    _orig_init(self, *a, **kw)
    _created.append(self)


sc_mod.SubChannel.__init__ = _record_init


def cases(tier, seed, prep=None):
    n = 420 if tier == "quick" else 14000
    return [{"seed": seed * 1000003 + 1300000 + i, "expected": i % 3 == 1, "half": 0.5 if i % 5 == 2 else 0.0,
             "cuts": i % 7 == 3} for i in range(n)]


def run_case(spec):
    del _created[:]
    world = World(spec["seed"])
    rng = world.work_rng
    names = rng.sample(NAMES, rng.randint(1, 4))
    expected = (None, None)
    listen_names = {"A": list(names), "B": list(names)}
    if spec["expected"]:
        exp = []
        for side in "AB":
            declared = rng.sample(names, rng.randint(0, len(names)))
            exp.append(declared)
            # (now and then the application also listens for a name it did not declare - a plug-in that registers its
            #  listener on its own: whether the listener is there before or after the OPEN must not change the answer)
            listen_names[side] = [n for n in names if (n in declared and rng.random() < 0.8) or (n not in declared and rng.random() < 0.25)]
        expected = tuple(exp)
    dp = DilatedPair(world, expected=expected)
    drv = ScriptDriver(dp, rng, names=names, max_opens=4, max_writes=25, sizes=(1, 10, 300, 20000, (65490, 65545)), late_listen=0.5,
                       half=spec["half"], close_prob=1.0, listen_names=listen_names, reactive=rng.choice([0, 0, 6, 14]), falsy=rng.choice([0.0, 0.0, 0.0, 0.5]))
    # (drv.escaping stays 0: an exception that the application lets escape from connectionLost() is an application
    #  defect, and on the unmodified tree it already costs other subchannels their records - DESIGN 8.3)
    late_listens = sum(len(v) for v in drv.pending_listen.values())
    # writes attempted right after a local close, while records of the peer may still be on their way
    early_wac = []
    wac_budget = [rng.randint(0, 8)]
    base_actions = drv.actions

    def actions(draining=False):
        acts = base_actions(draining) if not drv.stop else []
        if wac_budget[0] > 0:
            for side in "AB":
                closed = [p for p in drv.protos(side) if getattr(p, "closed_local", False)]
                if closed:
                    def wac(closed=closed):
                        wac_budget[0] -= 1
                        p = rng.choice(closed)
                        kinds = [e[0] for e in p.events]
                        try:
                            p.transport.write(rng.choice(LATE_PAYLOADS))
                            early_wac.append((p.name, None, kinds[-3:], world.step - getattr(p, "close_step", world.step)))
                        except Exception as e:
                            early_wac.append((p.name, type(e).__name__, None, 0))
                    acts.append((("app", side, "write-after-close"), wac))
        return acts
    drv.actions = actions
    drv.drain_actions = lambda: actions(True)
    sch = Scheduler(world, drv, strategy=rng.choice(["random", "pct", "appfirst", "netfirst"]), chunking="whole")
    viol_refuse = []
    bad_name = {"tried": 0, "outcome": None}
    if spec["cuts"] and spec["seed"] % 3 == 0:
        # an application bug: a subprotocol name that is a str but cannot be encoded (a lone surrogate, as
        # os.fsdecode() produces for undecodable bytes). It must be refused; it must not harm anything else.
        def try_bad_name():
            bad_name["tried"] = 1
            side = rng.choice("AB")
            try:
                d = dp.dilate(side).connector_for("caf\udce9").connect(RecFactory(dp, "%s.open[bad]" % side))
                d.addCallbacks(lambda p: bad_name.__setitem__("outcome", "connected"), lambda f: bad_name.__setitem__("outcome", f.type.__name__))
            except Exception as e:
                bad_name["outcome"] = type(e).__name__
        sch.faults.append((rng.randint(30, 200), try_bad_name, "connect with an unencodable name"))
    if spec["cuts"]:
        for _ in range(rng.randint(1, 2)):
            def cut():
                link = dp.selected_link()
                if link is not None:
                    world.reactor.cut(link)
            sch.faults.append((rng.randint(60, 400), cut, "cut L2"))
        sch.faults.sort(key=lambda f: f[0])
    sch.run(800)
    drv.stop = True
    for side in "AB":
        while drv.pending_listen[side]:
            drv.listen(side, drv.pending_listen[side].pop(0))
    sch.drain(120.0, 10000, until=lambda: False)
    # an application that, later on, starts listening for a name it had NOT declared as expected: OPENs for that
    # name were refused when they arrived and must stay refused
    late_undeclared = []
    if spec["expected"]:
        for i, side in enumerate("AB"):
            for n in names:
                if n not in expected[i] and n not in drv.factories[side] and rng.random() < 0.7:
                    drv.listen(side, n)
                    late_undeclared.append((side, n))
        sch.drain(30.0, 3000, until=lambda: False)
    # close everything that is still open, from a random side; also try writes after close
    writes_after_close = 0
    wac_errors = []
    all_protos = drv.protos("A") + drv.protos("B")
    for p in all_protos:
        # (a half-closeable protocol whose peer has closed its writing side often keeps its own side open until the
        #  wormhole goes away)
        keep = 0.6 if isinstance(p, HalfRecProto) else 0.2
        if drv.is_open(p) and rng.random() >= keep:
            drv.close(p)
    sch.drain(300.0, 15000, until=lambda: False)
    for p in all_protos:
        kinds = [e[0] for e in p.events]
        if getattr(p, "closed_local", False) or "lost" in kinds:
            writes_after_close += 1
            try:
                p.transport.write(rng.choice(LATE_PAYLOADS))
                wac_errors.append((p.name, None, kinds[-3:]))
            except Exception as e:
                wac_errors.append((p.name, type(e).__name__, None))
    sch.drain(30.0, 3000, until=lambda: False)
    viol = []

    def wit(extra=None):
        w = {"spec": spec, "names": names, "expected": expected, "listen": listen_names, "roles": {n: str(dp.role(n)) for n in "AB"},
             "opens": [(r["side"], r["name"], r["step"], bool(r["proto"]), r["failure"]) for r in drv.opens],
             "log_tail": dp.log[-40:], "write_errors": drv.write_errors[:6]}
        if extra:
            w.update(extra)
        return w
    for (side, n) in late_undeclared:
        f = drv.factories[side].get(n)
        if f is not None and f.built:
            viol.append({"key": "C13/refused-open-delivered-to-late-listener",
                         "msg": "%s declared %s as expected, refused the OPEN(s) for %r, and its later listener for %r was handed %d subchannel(s)" % (
                             side, expected["AB".index(side)], n, n, len(f.built)), "witness": wit()})
    # ids allocated by the two sides are disjoint
    ids = {"A": set(), "B": set()}
    for r in drv.opens:
        if r["proto"] is not None:
            ids[r["side"]].add(r["proto"].transport._scid)
    if ids["A"] & ids["B"]:
        viol.append({"key": "C13/subchannel-id-collision", "msg": "both sides allocated ids %s" % sorted(ids["A"] & ids["B"]), "witness": wit()})
    undeclared = 0
    for side in "AB":
        other = "B" if side == "A" else "A"
        for name in names:
            mine = sorted([r for r in drv.opens if r["side"] == side and r["name"] == name and r["proto"] is not None],
                          key=lambda r: r.get("made_step", 0))
            f = drv.factories[other].get(name)
            built = [(sp, p) for (sp, p) in f.built] if f is not None else []
            declared = expected[0 if other == "A" else 1]
            refused = declared is not None and name not in declared
            if refused:
                undeclared += len(mine)
                if built:
                    viol.append({"key": "C13/undeclared-subprotocol-accepted", "msg": "%s built a protocol for undeclared %r" % (other, name), "witness": wit()})
                for r in mine:
                    kinds = [e[0] for e in r["proto"].events]
                    if "lost" not in kinds and "read-lost" not in kinds:
                        viol.append({"key": "C13/undeclared-subprotocol-held-open",
                                     "msg": "%s opened %r which %s did not declare as expected (%s); the OPEN was neither refused nor closed within 450 virtual s (opener events %s)" % (
                                         side, name, other, declared, kinds), "witness": wit()})
                continue
            if f is None:
                continue      # nobody listens and nothing was declared: the OPEN is legitimately held
            if len(built) != len(mine):
                viol.append({"key": "C13/buildProtocol-count", "msg": "%s opened %d subchannels for %r, %s built %d protocols" % (side, len(mine), name, other, len(built)),
                             "witness": wit()})
            for (sp, q) in built:
                if sp != name:
                    viol.append({"key": "C13/wrong-subprotocol-address", "msg": "listener for %r got addr.subprotocol=%r" % (name, sp), "witness": wit()})
            for r, (sp, q) in zip(mine, built):
                p = r["proto"]
                for (s_, r_, lab) in ((p, q, "%s->%s %s" % (side, other, p.name)), (q, p, "%s->%s %s" % (other, side, q.name))):
                    sc = stream_check(s_, r_, lab)
                    if sc:
                        viol.append({"key": "C13/stream/" + sc[0], "msg": sc[1], "witness": wit()})
                    # data written before a local close is delivered before the peer sees the end
                    if getattr(s_, "closed_local", False) or "lost" in [e[0] for e in r_.events]:
                        got = [e[1] for e in r_.events if e[0] == "data"]
                        ended = [e[0] for e in r_.events if e[0] in ("lost", "read-lost")]
                        if ended and got != getattr(s_, "sent", []):
                            viol.append({"key": "C13/data-lost-before-close", "msg": "%s: peer saw the end after %d of %d writes" % (lab, len(got), len(getattr(s_, "sent", []))),
                                         "witness": wit()})
    closes = 0
    for p in all_protos:
        kinds = [e[0] for e in p.events]
        half = isinstance(p, HalfRecProto)
        if kinds.count("made") != 1 or kinds[0] != "made":
            viol.append({"key": "C13/connectionMade-not-once-first", "msg": "%s: %s" % (p.name, kinds[:5]), "witness": wit()})
        if kinds.count("lost") > 1 or kinds.count("read-lost") > 1 or kinds.count("write-lost") > 1:
            viol.append({"key": "C13/end-notification-twice", "msg": "%s: %s" % (p.name, kinds), "witness": wit()})
        if "lost" in kinds:
            closes += 1
            if kinds.index("lost") != len(kinds) - 1:
                viol.append({"key": "C13/event-after-connectionLost", "msg": "%s: %s" % (p.name, kinds[-5:]), "witness": wit()})
        if half and "read-lost" in kinds and "data" in kinds[kinds.index("read-lost"):]:
            viol.append({"key": "C13/data-after-readConnectionLost", "msg": "%s: %s" % (p.name, kinds[-5:]), "witness": wit()})
        if half and "read-lost" in kinds and "write-lost" in kinds and "lost" not in kinds:
            viol.append({"key": "C13/halfcloseable-never-gets-connectionLost",
                         "msg": "%s: both halves closed (%s) but connectionLost was never called" % (p.name, kinds[-4:]), "witness": wit()})
    # a subchannel closed by one side must end on the other side too
    for (r, q) in drv.pairs():
        p = r["proto"]
        if q is None:
            continue
        for (x, y) in ((p, q), (q, p)):
            if getattr(x, "closed_local", False):
                yk = [e[0] for e in y.events]
                if not ("lost" in yk or "read-lost" in yk):
                    viol.append({"key": "C13/close-not-seen-by-peer", "msg": "%s closed, %s saw %s" % (x.name, y.name, yk[-3:]), "witness": wit()})
                xk = [e[0] for e in x.events]
                if not isinstance(x, HalfRecProto) and not isinstance(y, HalfRecProto) and "lost" not in xk:
                    viol.append({"key": "C13/closer-never-gets-connectionLost", "msg": "%s closed, saw %s" % (x.name, xk[-3:]), "witness": wit()})
    if bad_name["tried"] and bad_name["outcome"] in (None, "connected"):
        viol.append({"key": "C13/unencodable-subprotocol-name-not-refused/" + str(bad_name["outcome"]), "msg": "connector_for('caf\\udce9').connect(): %s" % bad_name["outcome"], "witness": wit()})
    for (name_, err) in drv.late_write_results:
        if err is None:
            viol.append({"key": "C13/write-after-close-accepted", "msg": "%s: write() from inside connectionLost did not raise" % name_, "witness": wit()})
            break
    for (name_, err, tail, age) in early_wac:
        if err is None:
            viol.append({"key": "C13/write-after-close-accepted", "msg": "%s: write() %d steps after the local close did not raise (events %s)" % (name_, age, tail), "witness": wit()})
            break
    for (name_, err, tail) in wac_errors:
        if err is None:
            viol.append({"key": "C13/write-after-close-accepted", "msg": "%s: write() after close did not raise (events %s)" % (name_, tail), "witness": wit()})
    for r in drv.opens:
        if r["failure"]:
            viol.append({"key": "C13/connect-failed/" + r["failure"], "msg": str(r), "witness": wit()})
    if spec["half"] and not spec["expected"] and dp.both_connected():
        # one more half-closeable pair, opened now: the opener closes its writing half, the acceptor keeps its own
        # side open until the wormholes are closed
        saved_half, drv.half, drv.stop = drv.half, 1.0, False
        drv.listen("A", "hc-late")
        rec_ = drv.open("B", "hc-late")
        sch.drain(30.0, 3000, until=lambda: rec_["proto"] is not None or rec_["failure"] is not None)
        if rec_["proto"] is not None:
            drv.close(rec_["proto"])
        drv.half, drv.stop = saved_half, True
        sch.drain(30.0, 3000, until=lambda: False)
        all_protos = drv.protos("A") + drv.protos("B")
    refusals = 0
    if not spec["expected"] and dp.both_connected() and spec["seed"] % 2 == 0:
        # a listening factory that refuses a connection the documented way (buildProtocol() returns None): the opener
        # must be told (connectionLost), and subchannels opened afterwards must work
        class Refusing(RecFactory):
            refuse_first = None          # None: always; k: only the first k connections

            def buildProtocol(self, addr):
                if self.refuse_first is None or getattr(self, "refused", 0) < self.refuse_first:
                    self.refused = getattr(self, "refused", 0) + 1
                    return None
                return RecFactory.buildProtocol(self, addr)
        fr = Refusing(dp, "A.refuser")
        parked_extra = []
        if spec["seed"] % 4 == 0:
            # the OPENs arrive before anybody listens and wait; the listener that comes later declines the first of them
            # and takes the others
            fr.refuse_first = 1
            r1 = drv.open("B", "refuser")
            sch.drain(5.0, 600, until=lambda: r1["proto"] is not None)
            parked_extra = [drv.open("B", "refuser") for _ in range(rng.randint(1, 2))]
            sch.drain(10.0, 1500, until=lambda: all(x_["proto"] is not None for x_ in parked_extra))
            for x_ in parked_extra:
                if x_["proto"] is not None:
                    drv.write(x_["proto"], b"parked behind a declined one")
            sch.drain(10.0, 1500, until=lambda: False)
            listen_res = []
            dp.dw["A"].listener_for("refuser").listen(fr).addBoth(listen_res.append)
            sch.drain(60.0, 4000, until=lambda: bool(listen_res) and r1["proto"] is not None and "lost" in [e[0] for e in r1["proto"].events] and len(fr.built) >= len(parked_extra))
            if listen_res and hasattr(listen_res[0], "type"):
                viol_refuse.append({"key": "C13/listen-fails-because-the-factory-declined-a-waiting-open/" + listen_res[0].type.__name__, "msg": "listen() errback: %r" % (listen_res[0].value,), "witness": {"spec": spec}})
            got_ = [[e[1] for e in p_.events if e[0] == "data"] for (_, p_) in fr.built]
            if len(fr.built) != len([x_ for x_ in parked_extra if x_["proto"] is not None]) or any(g_ != [b"parked behind a declined one"] for g_ in got_):
                viol_refuse.append({"key": "C13/waiting-opens-lost-when-the-listener-declines-one", "msg": "%d OPENs waited behind the declined one; the listener was offered %d of them, data %s" % (len(parked_extra), len(fr.built), got_), "witness": {"spec": spec}})
            for x_ in parked_extra:
                if x_ in drv.opens:
                    drv.opens.remove(x_)
                if x_["proto"] is not None and drv.is_open(x_["proto"]):
                    drv.close(x_["proto"])
        else:
            dp.dw["A"].listener_for("refuser").listen(fr)
            r1 = drv.open("B", "refuser")
        sch.drain(60.0, 4000, until=lambda: r1["proto"] is not None and "lost" in [e[0] for e in r1["proto"].events])
        refusals = getattr(fr, "refused", 0)
        saved_stop, drv.stop = drv.stop, False
        drv.listen("A", "after-refusal")
        r2 = drv.open("B", "after-refusal")
        sch.drain(30.0, 3000, until=lambda: r2["proto"] is not None)
        if r2["proto"] is not None:
            drv.write(r2["proto"], b"after the refusal")
        sch.drain(60.0, 4000, until=lambda: bool(drv.factories["A"]["after-refusal"].built) and any(e[0] == "data" for e in drv.factories["A"]["after-refusal"].built[0][1].events))
        drv.stop = saved_stop
        drv.opens.remove(r1)
        # ... and the mirror case: the opener's own factory refuses after the OPEN has gone out
        got3 = []
        try:
            dp.dw["B"].connector_for("after-refusal").connect(Refusing(dp, "B.refuser")).addBoth(got3.append)
        except Exception as e:
            got3.append(e)
        nb = len(drv.factories["A"]["after-refusal"].built)
        sch.drain(60.0, 4000, until=lambda: bool(got3) and len(drv.factories["A"]["after-refusal"].built) > nb and
                  any(e[0] in ("lost", "read-lost") for e in drv.factories["A"]["after-refusal"].built[-1][1].events))
        b3 = drv.factories["A"]["after-refusal"].built[nb:]
        if not got3 or not (isinstance(got3[0], Exception) or hasattr(got3[0], "type")):
            viol.append({"key": "C13/connect-with-refusing-factory-does-not-fail", "msg": repr(got3)[:120], "witness": {"spec": spec}})
        elif b3 and not any(e[0] in ("lost", "read-lost") for e in b3[0][1].events):
            viol.append({"key": "C13/refused-by-factory-but-held-open", "msg": "the opener's buildProtocol() returned None after its OPEN had gone out; the acceptor's protocol has seen %s" % [e[0] for e in b3[0][1].events],
                         "witness": {"spec": spec}})
        if refusals and (r1["proto"] is None or not any(e[0] in ("lost", "read-lost") for e in r1["proto"].events)):
            viol.append({"key": "C13/refused-by-factory-but-held-open", "msg": "the listener's buildProtocol() returned None; 60 virtual s later the opener has seen %s" % (
                [e[0] for e in r1["proto"].events] if r1["proto"] is not None else r1["failure"]), "witness": {"spec": spec}})
        b2 = drv.factories["A"]["after-refusal"].built
        if r2["proto"] is None or not b2 or not any(e[0] == "data" for e in b2[0][1].events):
            viol.append({"key": "C13/subchannels-stall-after-a-refused-open", "msg": "a subchannel opened after the refused one: connect %s, acceptor built %d, data %s (managers %s/%s)" % (
                "ok" if r2["proto"] is not None else r2["failure"], len(b2), [e[0] for e in b2[0][1].events] if b2 else None, dp.mstate("A"), dp.mstate("B")), "witness": {"spec": spec}})
        all_protos = drv.protos("A") + drv.protos("B")
    # half-closeable pairs that are still fully open: one side now closes its writing half, the other keeps its own open
    for p_ in all_protos:
        if isinstance(p_, HalfRecProto) and getattr(p_, "transport", None) is not None and state_of(p_.transport) == "open_half" and rng.random() < 0.6:
            drv.close(p_)
    sch.drain(30.0, 3000, until=lambda: False)
    half_open_at_close_before = sum(1 for p_ in all_protos if isinstance(p_, HalfRecProto) and getattr(p_, "transport", None) is not None
                                    and state_of(p_.transport) in ("read_closed", "write_closed", "open_half"))
    # connect() calls around the wormhole's close(): in the same turn just before it, while it is closing, and after the
    # closed notification.  Each either fails or yields a protocol that is told connectionLost like every other
    late = []
    late_mode = rng.choice([None, "before", "during", "after", "all"])
    if late_mode in ("before", "all"):
        late.append(("before", drv.open(rng.choice("AB"), "p0")))
    dp.a.close()
    dp.b.close()
    if late_mode in ("during", "all"):
        sch.run(rng.randint(1, 12))
        late.append(("during", drv.open(rng.choice("AB"), "p0")))
    sch.drain(120.0, 8000, until=lambda: dp.a.closed and dp.b.closed)
    if late_mode in ("after", "all") and dp.a.closed and dp.b.closed:
        late.append(("after", drv.open(rng.choice("AB"), "p0")))
    sch.drain(5.0, 2000)
    all_protos = all_protos + [rec_["proto"] for (_, rec_) in late if rec_["proto"] is not None and rec_["proto"] not in all_protos]
    late_outcomes = ["%s:%s" % (when_, "protocol" if rec_["proto"] is not None else (rec_["failure"] or "pending")) for (when_, rec_) in late]
    # the wormholes are closed: no subchannel can carry anything any more, so every protocol must have been told
    still_open = 0
    half_open_at_close = sum(1 for p_ in all_protos if isinstance(p_, HalfRecProto) and getattr(p_, "transport", None) is not None
                             and state_of(p_.transport) in ("read_closed", "write_closed", "open_half"))
    if not (dp.a.closed and dp.b.closed):
        viol.append({"key": "C13/wormhole-close-never-completes/%s-%s" % (dp.mstate("A"), dp.mstate("B")),
                     "msg": "close() of the dilated wormholes did not complete (A closed=%s, B closed=%s); subchannel states: %s" % (
                         dp.a.closed, dp.b.closed, sorted({state_of(p_.transport) for p_ in all_protos if getattr(p_, "transport", None) is not None})[:6]),
                     "witness": wit()})
    if dp.a.closed and dp.b.closed:
        for p_ in all_protos:
            kinds_ = [e[0] for e in p_.events]
            if "made" in kinds_ and "lost" not in kinds_ and not isinstance(p_, HalfRecProto):
                still_open += 1
                if still_open == 1:
                    viol.append({"key": "C13/no-connectionLost-when-the-wormhole-closes", "msg": "%s: both wormholes are closed, the protocol saw %s and was never told that its connection is gone" % (p_.name, kinds_[-3:]),
                                 "witness": wit()})
    # half-closeable protocols: each direction's end is announced exactly once - never twice, and once the wormholes are
    # closed both have been announced (connectionLost itself is the recorded finding for these protocols)
    half_judged = 0
    for p_ in all_protos:
        if not isinstance(p_, HalfRecProto):
            continue
        kinds_ = [e[0] for e in p_.events]
        if "made" not in kinds_:
            continue
        half_judged += 1
        nr, nw = kinds_.count("read-lost"), kinds_.count("write-lost")
        if nr > 1 or nw > 1:
            viol.append({"key": "C13/halfcloseable/direction-lost-twice", "msg": "%s: readConnectionLost x%d, writeConnectionLost x%d (%s)" % (p_.name, nr, nw, kinds_[-5:]), "witness": wit()})
            break
        if dp.a.closed and dp.b.closed and "lost" not in kinds_ and (nr == 0 or nw == 0):
            viol.append({"key": "C13/halfcloseable/direction-never-lost-although-the-wormhole-closed",
                         "msg": "%s: both wormholes are closed; readConnectionLost x%d, writeConnectionLost x%d (%s)" % (p_.name, nr, nw, kinds_[-5:]), "witness": wit()})
            break
    world.finish()
    nsub = len(_created)
    nontrivial = trace_digest(sch) if (nsub and closes) else None
    benign = {"CloseForMissingSubchannelError", "DataForMissingSubchannelError"}
    return {"violations": viol, "nontrivial": nontrivial,
            "counters": {"subchannels": nsub, "closes": closes, "writes_after_close": writes_after_close, "writes_right_after_close": len(early_wac), "unencodable_names_tried": bad_name["tried"], "opens_refused_by_factory": refusals, "waiting_opens_declined_by_a_late_listener": int(bool(refusals) and spec["seed"] % 4 == 0 and not spec["expected"]), "subchannels_open_at_wormhole_close": still_open, "half_closed_subchannels_at_wormhole_close": half_open_at_close_before, "calls_from_inside_protocol_callbacks": drv.reactions_done, "errors_escaping_connectionLost": drv.escaped, "false_factories": drv.falsy_factories, "undeclared_opens": undeclared,
                         "late_listens": late_listens, "half_closeable_protocols_judged_per_direction": half_judged, "half_protocols": sum(isinstance(p, HalfRecProto) for p in all_protos),
                         "opens": len(drv.opens), "connects_around_wormhole_close": len(late), "notrans_seen": len(MON.notrans)},
            "sets": {"connects_around_wormhole_close": late_outcomes, "write_after_close_errors": sorted({e for (_, e, _) in wac_errors if e} | {e[1] for e in early_wac if e[1]}),
                     "logged_errors": sorted({e[0] for e in MON.errors}), "dilation_notrans": ["%s.%s/%s" % k for k in set(MON.notrans)]},
            "sample": {"spec": spec, "names": names, "expected": expected, "opens": [(r["side"], r["name"], bool(r["proto"])) for r in drv.opens],
                       "ids": {k: sorted(v) for k, v in ids.items()}, "events": {p.name: [e[0] for e in p.events][:8] for p in all_protos[:6]}}}
