"""C07 - Transit picks exactly one connection, chosen by the sender, key holders only."""
from twisted.internet import protocol

from ..env import World, RELAY_PORT, RELAY2_PORT
from ..sched import Scheduler
from ..simnet import unwrap
from ..transit_work import make_pair, hints_of, Result, link_of

from wormhole import transit

PID = "C07"
LEVEL = "exploration"
RULE = ("one TransitSender + one TransitReceiver with the derived key; 1-3 addresses per side (routable, "
        "refused, never answering), listener on/off per side, real transit relay or none or two different relays (one per side, equal priority); extra "
        "contenders: strangers with another key (real Transit objects), garbage talkers, peers that "
        "send only the key-independent handshake prefix and stall, a key holder that sends the sender "
        "handshake but never `go`, a key holder whose sender handshake arrives in two pieces followed by "
        "`nevermind` or by bytes that are not `go`; handshakes advance byte by byte in scheduler-chosen order across all "
        "live connections. Non-trivial = at least 2 connections contended; distinct = (config, "
        "contenders, number of links, outcome, which path won).")
ASSUMPTIONS = ["virtual time: the deadline clause is decided on the simulated clock"]
FLOORS = {"quick": {"both_connected": 300, "no_path_cases": 40, "stranger_links": 200, "links": 1000, "deadline_cases": 30},
          "thorough": {"both_connected": 12000, "no_path_cases": 1500, "stranger_links": 8000, "links": 40000, "deadline_cases": 900}}
ADDRS = ["10.0.0.1", "10.0.0.2", "10.0.0.3"]


def cases(tier, seed, prep=None):
    n = 700 if tier == "quick" else 28000
    out = [{"seed": seed * 1000003 + 700000 + i, "nopath": i % 9 == 4} for i in range(n)]
    # nothing can be negotiated and the peer's hints name many relays with as many different priorities (each
    # priority group is tried 2 s after the previous one): connect() must still fail by its deadline
    for i in range(36 if tier == "quick" else 1000):
        out.append({"kind": "deadline", "seed": seed * 1000003 + 760000 + i, "nrelays": [1, 3, 12, 29, 31, 45, 90, 200, 600][i % 9],
                    "receiver": i % 2 == 0, "direct": i % 3 == 0})
    return out


def run_deadline(spec):
    world = World(spec["seed"])
    rng = world.work_rng
    r = world.reactor
    cls = transit.TransitReceiver if spec["receiver"] else transit.TransitSender
    t = cls(None, no_listen=True, reactor=r)
    t.set_transit_key(rng.randbytes(32))
    hints_of(t)
    hints = []
    for i in range(spec["nrelays"]):
        host = "10.7.%d.%d" % (i // 250, i % 250 + 1)
        r.unroutable.add(host)
        hints.append({"type": "relay-v1", "hints": [{"type": "direct-tcp-v1", "priority": float(i) / 4, "hostname": host, "port": 4001}]})
    if spec["direct"]:
        r.unroutable.add("10.8.8.8")
        hints.append({"type": "direct-tcp-v1", "priority": 1.0, "hostname": "10.8.8.8", "port": 5000})
    rng.shuffle(hints)
    t.add_connection_hints(hints)
    t0 = r.seconds()
    res = Result(t.connect())
    sch = Scheduler(world, None, strategy="random", chunking="whole")
    done_at = []
    sch.hook = lambda: done_at.append(r.seconds()) if (res.done and not done_at) else None
    end = sch.drain(1500.0, 200000, until=lambda: res.done)
    took = (done_at[0] if done_at else r.seconds()) - t0
    deadline = 2 * transit.TIMEOUT
    viol = []
    wit = {"spec": spec, "took": took, "deadline": deadline, "done": res.done, "failure": repr(res.failure.value)[:120] if res.failure else None,
           "timers_left": len(r.getDelayedCalls())}
    if not res.done:
        viol.append({"key": "C07/connect-hangs", "msg": "connect() still pending %.0f virtual s after it was called (%d relay priorities)" % (took, spec["nrelays"]), "witness": wit})
    elif res.value is not None:
        viol.append({"key": "C07/connected-to-nobody", "msg": repr(res.value)[:100], "witness": wit})
    elif took > deadline + 1.0:
        viol.append({"key": "C07/connect-fails-after-its-deadline", "msg": "connect() failed %.0f virtual s after it was called; the deadline is %d s (%d relay priorities in the peer's hints)" % (
            took, deadline, spec["nrelays"]), "witness": wit})
    sch.drain(5.0, 2000)
    left = [c for c in r.getDelayedCalls()]
    if res.done and left:
        viol.append({"key": "C07/timers-left-after-connect-failed", "msg": "%d timers pending after connect() had failed" % len(left), "witness": wit})
    world.finish()
    return {"violations": viol, "nontrivial": ["deadline", spec["nrelays"], spec["receiver"], spec["direct"], spec["seed"]],
            "counters": {"deadline_cases": 1, "no_path_cases": 1, "relay_priorities": spec["nrelays"]},
            "sample": {"spec": spec, "took": took}}


class Garbage(protocol.Protocol):
    def __init__(self, data, later=b""):
        self.data, self.later = data, later

    def connectionMade(self):
        self.transport.write(self.data)

    def dataReceived(self, data):
        if self.later:
            self.transport.write(self.later)
            self.later = b""


def run_case(spec):
    if spec.get("kind") == "deadline":
        return run_deadline(spec)
    world = World(spec["seed"], relay=True)
    rng = world.work_rng
    r = world.reactor
    relay = rng.random() < 0.45 and not spec["nopath"]
    listen_s = rng.random() < 0.8
    listen_r = rng.random() < 0.8
    nopath = spec["nopath"]
    world.local_addresses = ["127.0.0.1"] + rng.sample(ADDRS, rng.randint(1, 3))
    two_relays = relay and rng.random() < 0.4
    if two_relays:
        # the two sides are configured with different relays: both hints have the same priority
        from ..env import RELAY2_HINT
        world.start_second_relay()
    s, rc, key = make_pair(world, relay=relay, listen_s=listen_s, listen_r=listen_r,
                           relay_r=(RELAY2_HINT if two_relays else None))
    hs, hr = hints_of(s), hints_of(rc)
    asked_again = 0
    if spec["seed"] % 6 == 3:
        # the application asks for its hints a second time (a GUI refresh, hints sent again) after the host's set of
        # addresses has changed; the peer still uses the first batch
        saved = list(world.local_addresses)
        world.local_addresses = saved[:1] + rng.sample(ADDRS, rng.randint(1, 3)) + ["10.0.0.9"]
        for t_ in rng.sample([s, rc], rng.randint(1, 2)):
            hints_of(t_)
            asked_again += 1
        world.local_addresses = saved
    # some addresses of each side are unreachable from the other
    bad = {}
    for h in [x for x in hs + hr if x["type"] == "direct-tcp-v1"]:
        fate = rng.choice(["ok", "ok", "refuse", "never"]) if not nopath else rng.choice(["refuse", "never"])
        bad[(h["hostname"], h["port"])] = fate
        if fate == "refuse":
            r.refuse.add((h["hostname"], h["port"]))
        elif fate == "never":
            r.unroutable.add((h["hostname"], h["port"]))
    rc.add_connection_hints(hs)
    s.add_connection_hints(hr)
    t0 = r.seconds()
    # as in the CLI, one side may call connect() only later (when the other's answer arrives), so an
    # inbound connection can finish negotiating before the local connect() is issued
    late = rng.choice([None, None, "S", "R"])
    pending_late = []

    class _Later:
        done = False
        value = failure = None
    if late == "S":
        ds, dr = _Later(), Result(rc.connect())
        pending_late.append("S")
    elif late == "R":
        ds, dr = Result(s.connect()), _Later()
        pending_late.append("R")
    else:
        ds, dr = Result(s.connect()), Result(rc.connect())
    t_start = {"S": t0, "R": t0}
    t_finish = {}

    def stamp(res, who):
        d0 = getattr(res, "_d", None)
        return res
    ports = {}
    if listen_s:
        ports["S"] = [h["port"] for h in hs if h["type"] == "direct-tcp-v1"][0]
    if listen_r:
        ports["R"] = [h["port"] for h in hr if h["type"] == "direct-tcp-v1"][0]
    # strangers
    strangers = []
    stranger_objs = []
    budget = rng.randint(0, 4) if ports or relay else 0

    def add_stranger():
        kind = rng.choice(["otherkey-sender", "otherkey-receiver", "garbage", "prefix-stall", "no-go", "early-go",
                           "keyholder-nevermind", "keyholder-wrong-go"])
        target = rng.choice(sorted(ports)) if ports else None
        strangers.append((kind, target))
        if target is None:
            return
        port = ports[target]
        host = "10.0.9.%d" % len(strangers)    # a routable source; destination is the listener port
        dst = ("10.0.0.9", port)
        if kind.startswith("otherkey"):
            cls = transit.TransitSender if kind.endswith("sender") else transit.TransitReceiver
            t = cls(None, no_listen=True, reactor=r)
            t.set_transit_key(rng.randbytes(32))
            t.add_connection_hints([{"type": "direct-tcp-v1", "hostname": dst[0], "port": port, "priority": 0.0}])
            stranger_objs.append(Result(t.connect()))
        else:
            if kind == "garbage":
                data = rng.choice([rng.randbytes(rng.randint(1, 90)), b"transit sender 00 ready\n\n", b"go\n", b"\n\n"])
                p = Garbage(data)
            elif kind == "prefix-stall":
                p = Garbage(rng.choice([b"transit ", b"transit sender ", b"transit receiver ", b"t"]))
            elif kind in ("keyholder-nevermind", "keyholder-wrong-go") and target == "R":
                # a key holder's connection that the sender side gives up: the handshake arrives in two
                # pieces, the second one together with what follows ("nevermind", or something that is not "go")
                hs_ = transit.build_sender_handshake(key)
                k = rng.randint(1, len(hs_) - 1)
                tail = b"nevermind\n" if kind == "keyholder-nevermind" else rng.choice([b"no\n", b"GO\n", b"go ", rng.randbytes(3), b"g", b"nevermind"])
                p = Garbage(hs_[:k], hs_[k:] + tail)
            elif kind in ("keyholder-nevermind", "keyholder-wrong-go"):
                hs_ = transit.build_receiver_handshake(key)
                k = rng.randint(1, len(hs_) - 1)
                # towards the sender: a receiver handshake in two pieces that never completes (a complete one
                # would make this stranger a legitimate second receiver, which the sender may pick)
                p = Garbage(hs_[:k], hs_[k:-1])
            elif kind == "no-go":
                # a key holder talking to the *receiver*: correct sender handshake, then silence
                p = Garbage(transit.build_sender_handshake(key) if target == "R" else transit.build_receiver_handshake(key)[:-3])
            else:
                # handshake with a wrong id, then "go" anyway
                p = Garbage(b"transit sender " + b"0" * 64 + b" ready\n\ngo\n")
            f = protocol.ClientFactory()
            f.buildProtocol = lambda addr: p
            p.stranger = True
            r.connectTCP(dst[0], port, f)

    class Drv:
        def actions(self_):
            nonlocal budget, ds, dr
            if pending_late and (world.step >= late_at or not r.actions()):
                def go_late():
                    nonlocal ds, dr
                    who = pending_late.pop()
                    t_start[who] = r.seconds()
                    try:
                        if who == "S":
                            ds = Result(s.connect())
                        else:
                            dr = Result(rc.connect())
                    except Exception as e:
                        from twisted.python import failure as _f
                        res = _Later()
                        res.done, res.failure = True, _f.Failure(e)
                        if who == "S":
                            ds = res
                        else:
                            dr = res
                return [(("app", "late-connect"), go_late)]
            if budget > 0 and not (ds.done and dr.done):
                def go():
                    nonlocal budget
                    budget -= 1
                    add_stranger()
                return [(("app", "stranger"), go)]
            return []
        drain_actions = actions
    late_at = rng.choice([5, 20, 60, 150])
    sch = Scheduler(world, Drv(), strategy=rng.choice(["random", "pct", "netfirst", "timersfirst"]), chunking="mixed",
                    tiny_budget=rng.choice([50, 400, 2000]), p_advance=rng.choice([0.0, 0.01]))
    def hook():
        for who, res in (("S", ds), ("R", dr)):
            if res.done and who not in t_finish:
                t_finish[who] = r.seconds()
    sch.hook = hook
    sch.run(6000, until=lambda: ds.done and dr.done and not pending_late)
    end = sch.drain(400.0, 30000, until=lambda: ds.done and dr.done and not pending_late)
    if end == "steps":
        # the step cap, not the virtual-time bound, ended the drain: no verdict on this case
        world.finish()
        return {"inconclusive": "step cap reached in the final drain", "violations": []}
    hook()
    sch.hook = None
    t_done = max([t_finish.get(w, r.seconds()) - t_start[w] for w in "SR"])
    sch.drain(200.0, 20000)
    world.finish()

    viol = []
    links = [l for l in r.links if l.tags.get("port") != 4000]

    def own(conn):
        return getattr(conn, "owner", None)

    def describe():
        out = []
        for l in links:
            row = {"id": l.id, "port": l.tags.get("port")}
            for e in l.ends:
                p = unwrap(e.protocol)
                row["end%d" % e.end] = {"proto": type(p).__name__, "owner": "S" if own(p) is s else "R" if own(p) is rc else "-",
                                        "state": getattr(p, "state", None), "connected": bool(e.connected),
                                        "tx": bytes(e.tx_log[-12:]).decode("latin1"), "lose": len(e.lose_calls)}
            out.append(row)
        return out

    def wit():
        return {"spec": spec, "relay": relay, "listen": [listen_s, listen_r], "fates": {"%s:%d" % k: v for k, v in bad.items()},
                "strangers": strangers, "sender": repr(ds.value or ds.failure)[:120], "receiver": repr(dr.value or dr.failure)[:120],
                "links": describe()[:14], "t_done": t_done}
    for res in (ds, dr):
        if res.failure is not None and res.failure.type.__name__ in ("RuntimeError", "TypeError", "AttributeError", "KeyError", "AssertionError", "ValueError"):
            viol.append({"key": "C07/connect-raises/" + res.failure.type.__name__, "msg": "connect() failed with %r" % (res.failure.value,), "witness": wit()})
    honest_path = relay or any(v == "ok" for (k, v) in bad.items())
    both = ds.value is not None and dr.value is not None
    cs, cr = ds.value, dr.value
    for (res, who, obj) in ((cs, "sender", s), (cr, "receiver", rc)):
        if res is not None and own(res) is not obj:
            viol.append({"key": "C07/result-not-own-connection", "msg": who, "witness": wit()})
    if (ds.value is None) != (dr.value is None) and ds.done and dr.done:
        # one side succeeded alone: only acceptable if its peer really is the honest peer that later failed
        pass
    if not (ds.done and dr.done):
        viol.append({"key": "C07/connect-hangs", "msg": "connect() still pending %.0f virtual s after start (sender done=%s receiver done=%s)" % (t_done, ds.done, dr.done),
                     "witness": wit()})
    go_links = []
    for l in links:
        for e in l.ends:
            p = unwrap(e.protocol)
            if own(p) is s and b"go\n" in bytes(e.tx_log) and bytes(e.tx_log).endswith(b"go\n") or (own(p) is s and b"ready\n\ngo\n" in bytes(e.tx_log)):
                go_links.append((l, e))
    if len(go_links) > 1:
        viol.append({"key": "C07/sender-confirmed-several", "msg": "the sender wrote go on %d connections" % len(go_links), "witness": wit()})
    want_rx = transit.build_receiver_handshake(key)
    for (l, e) in go_links:
        # the go must come after the complete correct receiver handshake was delivered on that connection
        marks = [m for m in e.write_marks if m[1].startswith(b"go\n")]
        rx = bytes(e.rx_log)
        relay_ok = rx.startswith(b"ok\n")
        hs_rx = rx[3:] if relay_ok else rx
        if not hs_rx.startswith(want_rx):
            viol.append({"key": "C07/go-without-correct-receiver-handshake", "msg": "sender confirmed a connection that delivered %r" % rx[:100], "witness": wit()})
        elif marks and marks[0][0] < len(want_rx) + (3 if relay_ok else 0):
            viol.append({"key": "C07/go-before-handshake-complete", "msg": "go written after only %d bytes" % marks[0][0], "witness": wit()})
    if cr is not None:
        lr, er = link_of(world, cr)
        rx = bytes(lr.ends[er].rx_log)
        if rx.startswith(b"ok\n"):
            rx = rx[3:]
        if not rx.startswith(transit.build_sender_handshake(key) + b"go\n"):
            viol.append({"key": "C07/receiver-used-connection-without-go", "msg": "receiver's connection delivered %r" % rx[:110], "witness": wit()})
    if both:
        ls, es = link_of(world, cs)
        lr, er = link_of(world, cr)
        same = ls is lr
        if not same:
            # through the relay: both links end at the relay, paired with each other
            ps, pr = unwrap(ls.ends[1 - es].protocol), unwrap(lr.ends[1 - er].protocol)
            paired = getattr(getattr(ps, "_buddy", None), "_client", None) is pr or getattr(getattr(pr, "_buddy", None), "_client", None) is ps
            if not (ls.tags.get("port") in (RELAY_PORT, RELAY2_PORT) and lr.tags.get("port") == ls.tags.get("port") and paired):
                viol.append({"key": "C07/results-not-two-ends-of-one-link", "msg": "sender on link %d, receiver on link %d" % (ls.id, lr.id),
                             "witness": wit()})
        else:
            for (l, e, o) in ((ls, es, rc), (lr, er, s)):
                if own(unwrap(l.ends[1 - e].protocol)) is not o:
                    viol.append({"key": "C07/peer-of-result-is-not-the-key-holder", "msg": "", "witness": wit()})
        # every other connection of S and R is closed after the drain
        for l in links:
            for e in l.ends:
                p = unwrap(e.protocol)
                if own(p) in (s, rc) and p is not cs and p is not cr and e.connected:
                    viol.append({"key": "C07/loser-still-open/" + str(getattr(p, "state", "?")),
                                 "msg": "a non-selected connection of %s is still connected after the drain (state %r)" % ("sender" if own(p) is s else "receiver", p.state),
                                 "witness": wit()})
                    break
    elif ds.done and dr.done:
        if (ds.value is not None or dr.value is not None) and not sch.p_advance:
            one = "sender" if ds.value is not None else "receiver"
            viol.append({"key": "C07/only-%s-connected" % one, "msg": "one connect() succeeded, the other failed with %r" % (ds.failure or dr.failure), "witness": wit()})
        if t_done > 2 * transit.TIMEOUT + 1.0:
            viol.append({"key": "C07/deadline-missed", "msg": "connect() failed only after %.1f virtual s" % t_done, "witness": wit()})
        if honest_path and not nopath and t_done < 2 * transit.TIMEOUT and end != "steps":
            pass   # negotiation may legitimately fail early only if nothing is routable; checked below
    if not both and honest_path and ds.done and dr.done and ds.value is None and dr.value is None and not sch.p_advance:
        viol.append({"key": "C07/failed-although-honest-path-exists", "msg": "both connect() failed (%r) although a routable path existed" % (ds.failure,),
                     "witness": wit()})
    # open listeners of S/R left behind?
    for (name, port) in ports.items():
        if port in r.ports and ds.done and dr.done:
            viol.append({"key": "C07/listener-still-open", "msg": "%s's listener on port %d is still open after connect() finished" % (name, port), "witness": wit()})
    # strangers never win
    for so in stranger_objs:
        if so.value is not None:
            viol.append({"key": "C07/stranger-negotiated", "msg": "a Transit object with another key completed negotiation", "witness": wit()})
    stranger_links = sum(1 for l in links for e in l.ends if getattr(unwrap(e.protocol), "stranger", False) or
                         (own(unwrap(e.protocol)) not in (None, s, rc)))
    winner = None
    if both:
        ls, es = link_of(world, cs)
        winner = "relay" if ls.tags.get("port") in (RELAY_PORT, RELAY2_PORT) else ("dialled-by-sender" if es == 0 else "dialled-by-receiver")
    nontrivial = None
    if len(links) >= 2:
        nontrivial = [relay, listen_s, listen_r, sorted(bad.values()), [k for (k, t) in strangers], len(links), both, winner,
                      round(t_done)]
    return {"violations": viol, "nontrivial": nontrivial,
            "counters": {"both_connected": int(both), "no_path_cases": int(not honest_path), "stranger_links": stranger_links,
                         "links": len(links), "failed_by_deadline": int(not both and t_done >= 2 * transit.TIMEOUT - 1),
                         "won_" + str(winner): 1, "relay_cases": int(relay), "late_connect_cases": int(late is not None)},
            "sample": {"spec": spec, "relay": relay, "listen": [listen_s, listen_r], "fates": sorted(bad.values()),
                       "strangers": strangers, "both": both, "winner": winner, "t_done": t_done, "links": describe()[:6]}}
