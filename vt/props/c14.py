"""C14 - no internal failure on any legal use against a conformant (but awkward) server."""
from ..env import World, client_link, rc_of
from ..sched import Scheduler
from ..adversary import ReorderDup
from ..apps import WApp, is_wormhole_error
from ..mailbox_work import STRATS, trace_digest, events_view
from ..monitors import MON, state_of

PID = "C14"
LEVEL = "exploration"
RULE = ("random legal API programs on 2-3 real wormholes (any interleaving of get_*, one code call "
        "among allocate/set/input with helper calls in any order incl. misuse that must raise only "
        "documented errors, send_message, derive_key, close() any number of times, both API styles; in a "
        "fifth of the cases the program keeps calling the API after its own close() until it observes "
        "the closure; a share of the programs also calls dilate() at a random point, with directed cases "
        "closing while a candidate connection is being selected; directed prompt-race cases type the "
        "code's words just after the wormhole began to close) "
        "against the real server with reordered+duplicated `message` delivery, full replay on "
        "re-open, a real third client (crowded), welcome{error}, link cuts anywhere after the first "
        "open, tcp and (thorough) tls transport modes. Non-trivial = at least one new "
        "(machine,state,input) triple for this run's shard order is not required; a case counts "
        "when >= 25 machine transitions were exercised; distinct = decision traces.")
ASSUMPTIONS = ["scope: every automat machine of the client (the thirteen mailbox-layer machines, RendezvousConnector, and - in "
               "the cases that call dilate() - the Dilation machines); subchannels are not used by these programs",
               "after the application has observed closure it issues only get_*/close",
               "server `error` replies other than the consequences of a third participant are flagged"]
FLOORS = {"quick": {"closes_from_inside_one_particular_notification": 40, "close_inside_verifier": 3, "close_inside_versions": 2, "transitions": 60000, "closed_sides": 1000, "dilated_cases": 150, "prompt_race_cases": 50, "api_calls_from_inside_a_notification": 300, "closes_from_the_wordlist_callback": 10, "closes_from_a_reconnecting_status": 15, "api_calls_from_status_updates": 400, "closes_while_offline_before_the_words": 3, "dilate_called_between_peer_dilate0_and_peer_version": 5},
          "thorough": {"closes_from_inside_one_particular_notification": 1000, "close_inside_verifier": 100, "close_inside_versions": 100, "transitions": 3000000, "closed_sides": 50000, "dilated_cases": 8000, "prompt_race_cases": 2500, "api_calls_from_inside_a_notification": 15000, "closes_from_the_wordlist_callback": 500, "closes_from_a_reconnecting_status": 800, "api_calls_from_status_updates": 20000, "closes_while_offline_before_the_words": 100, "dilate_called_between_peer_dilate0_and_peer_version": 150}}
DOCUMENTED_VERDICTS = ("happy", "LonelyError", "WrongPasswordError", "ServerError", "WelcomeError",
                       "ServerConnectionError")
WORDS = ["purple", "sausages", "alpha", "beta", "zulu", "absurd"]


def cases(tier, seed, prep=None):
    q = tier == "quick"
    out = []
    n = 900 if q else 60000
    for i in range(n):
        mode = "tcp" if (q or i % 4) else "tls"
        out.append({"kind": "program", "seed": seed * 1000003 + 1400000 + i, "mode": mode,
                    "third": i % 7 == 3, "welcome_error": ("nope" if i % 23 == 11 else None),
                    "late_code": i % 9 == 5, "mismatch": i % 11 == 6, "late_welcome_error": i % 13 == 4,
                    "after_close": i % 5 == 2})
    for i in range(150 if q else 8000):
        out.append({"kind": "program", "seed": seed * 1000003 + 1490000 + i, "mode": "tcp", "third": i % 9 == 3, "welcome_error": None,
                    "late_code": i % 9 == 5, "mismatch": i % 11 == 6, "late_welcome_error": i % 13 == 4, "after_close": i % 5 == 2,
                    "dilate": True})
    for i in range(40 if q else 2000):
        out.append({"kind": "program", "seed": seed * 1000003 + 1495000 + i, "mode": "tcp", "third": False, "welcome_error": None,
                    "late_code": False, "mismatch": False, "late_welcome_error": False, "after_close": False,
                    "dilate": True, "dilate_race": True})
    for i in range(30 if q else 900):
        out.append({"kind": "program", "seed": seed * 1000003 + 1497000 + i, "mode": "tcp", "third": False, "welcome_error": None,
                    "late_code": False, "mismatch": False, "late_welcome_error": False, "after_close": False,
                    "dilate": True, "dilate_race": True, "version_last": True})
    for i in range(80 if q else 4000):
        race = ["close", "close+drop", "unwelcome", "drop+close"][i % 4]
        out.append({"kind": "program", "seed": seed * 1000003 + 1480000 + i, "mode": "tcp", "third": False, "welcome_error": None,
                    "late_code": False, "mismatch": i % 4 == 3, "late_welcome_error": False, "after_close": race != "unwelcome",
                    "prompt_race": race})
    return out


class Prog:
    """one side's random legal program"""

    def __init__(self, world, name, rng, shared, spec):
        self.world, self.name, self.rng, self.shared = world, name, rng, shared
        self.spec = spec
        api = rng.choice(["deferred", "deferred", "delegate"])
        self.dilate_budget = 0
        if spec.get("dilate") and name != "C":
            api = "deferred"          # only the Deferred-mode wormhole has dilate()
            self.dilate_budget = rng.choice([1, 1, 1, 0])
        self.dilate_gate = rng.choice(["now", "now", "code", "key", "late"])
        self.app = WApp(world, name, api=api, eager_msgs=rng.random() < 0.7, dilation=bool(spec.get("dilate")) and name != "C")
        self.method = rng.choice(["alloc", "set", "input"]) if name == "A" else rng.choice(["set", "input", "set-own"])
        if name == "C":
            self.method = "set"
        self.code_done = False
        self.helper = None
        self.np_chosen = False
        self.words_chosen = False
        self.budget = {"send": rng.randint(0, 6), "get": rng.randint(0, 6), "derive": rng.randint(0, 3),
                       "close": rng.choice([1, 1, 2, 3]), "code2": rng.choice([0, 0, 1]),
                       "misuse": rng.choice([0, 0, 1, 2])}
        self.close_gate = rng.choice(["any", "any", "late", "late", "done"])
        # a human at the prompt: the words may be typed only after the peer's PAKE has arrived, or late
        self.words_gate = rng.choice(["any", "any", "pake", "late"])
        self.words_late_at = rng.choice([60, 150])
        if spec.get("dilate_race") and name != "C":
            self.close_gate = "never"
            self.dilate_budget = 1
            if self.method == "set-own":
                self.method = "set"
        race = spec.get("prompt_race")
        if race and name == "B":
            # directed: the words reach the wormhole in the window between "closing began" and "the
            # application was told" - closing by the application's own close() (another task), by a
            # welcome error on a reconnect, or by close() while the connection is down
            self.method = "input"
            self.words_gate = "after-closing"
            self.close_gate = "pake" if race in ("close", "close+drop") else "never"     # (drop+close: the hook closes)
            self.budget["close"] = max(self.budget["close"], 1)
        self.api_exc = []        # unexpected exceptions escaping API calls
        self.ncalls = 0
        # an application that reacts to what it is told at once: API calls made from inside the delegate's callback
        # (synchronously, below the library's own frames) or from inside a Deferred callback
        self.reactive = rng.random() < 0.35
        self.reentrant_calls = 0
        self.in_reaction = False
        if self.reactive:
            self.app.on_event = self.react
            if rng.random() < 0.5:
                # ... and to status updates (Connecting / Connected / code consumed / closed ...)
                self.app.status_hook = lambda st: self.react("status:" + type(getattr(st, "mailbox_connection", st)).__name__, status=True)
        self.late_code = spec.get("late_code") and name == "B"
        # an application that is done as soon as it has heard one particular thing, and says so on the spot: close() from
        # inside that notification (either API flavour)
        self.close_on_kind = None
        if spec["seed"] % 4 == 3 and name == "AB"[(spec["seed"] // 4) % 2]:
            self.close_on_kind = ["code", "key", "verifier", "versions", "msg", "verifier", "welcome", "versions"][(spec["seed"] // 8) % 8]
            self.app.on_event = self.react

    def react(self, kind, always=False, status=False):
        if kind == self.close_on_kind and not self.in_reaction and not status and self.budget["close"] >= 0 and not self.app.close_calls:
            self.in_reaction = True
            try:
                self.reentrant_calls += 1
                self.closes_on_kind = getattr(self, "closes_on_kind", 0) + 1
                self.kind_closed_on = kind
                self.do_close()
            finally:
                self.in_reaction = False
            return
        if not self.reactive:
            return
        if self.in_reaction or (not always and self.rng.random() < 0.5):
            return
        if status:
            self.status_reactions = getattr(self, "status_reactions", 0) + 1
            if kind == "status:Connected":
                self.seen_connected = True
            if kind == "status:Connecting" and getattr(self, "seen_connected", False) and self.budget["close"] > 0 \
                    and not self.observed_closed() and self.rng.random() < 0.5:
                # "the connection is gone again - give up": close() from inside the status update of a reconnection attempt
                self.in_reaction = True
                try:
                    self.reentrant_calls += 1
                    self.reconnect_closes = getattr(self, "reconnect_closes", 0) + 1
                    self.do_close()
                finally:
                    self.in_reaction = False
                return
        acts = self.actions()
        if always:
            if self.rng.random() < 0.5 and self.budget["close"] > 0 and not self.observed_closed():
                # "the wordlist has arrived - but the user has lost interest meanwhile"
                self.in_reaction = True
                try:
                    self.reentrant_calls += 1
                    self.wordlist_closes = getattr(self, "wordlist_closes", 0) + 1
                    self.do_close()
                finally:
                    self.in_reaction = False
                return
            pref = [a for a in acts if a[0][1] in ("words", "send")]
            acts = pref or acts
        if acts:
            self.in_reaction = True
            try:
                self.reentrant_calls += 1
                self.rng.choice(acts)[1]()
            finally:
                self.in_reaction = False

    def observed_closed(self):
        k = self.app.kinds()
        return "closed" in k or any(x.endswith("-err") for x in k)

    def _api(self, label, fn, allowed=()):
        self.ncalls += 1
        try:
            return fn()
        except Exception as e:
            tn = type(e).__name__
            if tn in allowed:
                return None
            self.api_exc.append((self.world.step, label, tn, repr(e)[:200]))
            return None

    def seen_peer_pake(self):
        mine = self.app.w._boss._side
        return any(m.get("type") == "message" and m.get("phase") == "pake" and m.get("side") != mine for (_, m) in self.app.inbound)

    def words_gate_open(self):
        if self.words_gate == "pake":
            return self.world.step > 400 or self.seen_peer_pake()
        if self.words_gate == "after-closing":
            return any(st in ("S3_closing", "S4_closed") or inp in ("close", "rx_unwelcome", "rx_error")
                       for (_, st, inp) in self.app.binputs) or self.world.step > 700
        if self.words_gate == "late":
            return self.world.step > self.words_late_at
        return True

    def known_code(self):
        if self.spec.get("mismatch") and self.name == "B" and self.shared.get("code"):
            return self.shared["code"] + "-wrong"
        if self.method == "set-own":
            return "%d-%s" % (self.rng.randint(1, 50), "-".join(self.rng.sample(WORDS, 2)))
        return self.shared.get("code")

    def actions(self):
        acts = []
        app = self.app
        name = self.name
        if self.observed_closed():
            # only get_* and close are legal now
            if self.budget["get"] > 0 and app.api == "deferred":
                acts.append(((name, "get"), self.do_get))
            if self.budget["close"] > 0:
                acts.append(((name, "close"), self.do_close))
            return acts
        # a program with `after_close` keeps using the API after its own close() call until it has been
        # told that the wormhole is closed (another task of the same application, a prompt still open)
        closing = app.close_calls > 0 and not self.spec.get("after_close")
        ALL = ("OnlyOneCodeError", "KeyFormatError")
        if not self.code_done and not closing:
            if self.method == "alloc":
                def f():
                    self.code_done = True
                    self._api("allocate_code", lambda: app.call("allocate_code", self.rng.choice([1, 2, 3])))
                acts.append(((name, "code"), f))
            elif self.method in ("set", "set-own"):
                code = self.known_code()
                if code is not None and not (self.late_code and not self.shared.get("a_closed")):
                    def f():
                        self.code_done = True
                        self._api("set_code", lambda: app.call("set_code", code))
                    acts.append(((name, "code"), f))
            else:
                def f():
                    self.code_done = True
                    self.helper = self._api("input_code", lambda: app.call("input_code"))
                    if self.helper is not None and self.reactive:
                        # ... and one that acts as soon as the wordlist is there (this Deferred fires from inside the
                        # library's processing of the server's `claimed`)
                        d = self._api("when_wordlist_is_available", self.helper.when_wordlist_is_available)
                        if d is not None:
                            d.addCallback(lambda _: self.react("wordlist", always=True))
                            d.addErrback(lambda f: None)
                acts.append(((name, "code"), f))
        if self.helper is not None and not closing:
            h = self.helper
            code = self.shared.get("code")
            if code is not None and self.spec.get("mismatch") and self.name == "B":
                code = code + "-wrong"
            HE = ("MustChooseNameplateFirstError", "AlreadyChoseNameplateError", "AlreadyChoseWordsError",
                  "KeyFormatError")
            if code is not None:
                np_, words = code.split("-", 1)
                if not self.np_chosen:
                    def f():
                        self.np_chosen = True
                        self._api("choose_nameplate", lambda: h.choose_nameplate(np_))
                    acts.append(((name, "np"), f))
                elif not self.words_chosen and self.words_gate_open():
                    def f():
                        self.words_chosen = True
                        self._api("choose_words", lambda: h.choose_words(words))
                    acts.append(((name, "words"), f))
            if self.budget["misuse"] > 0:
                def f():
                    self.budget["misuse"] -= 1
                    which = self.rng.choice(["refresh", "npc", "wc", "np", "words", "badnp"])
                    if which == "refresh":
                        self._api("refresh_nameplates", h.refresh_nameplates, HE)
                    elif which == "npc":
                        self._api("get_nameplate_completions", lambda: h.get_nameplate_completions(self.rng.choice(["", "1", "4"])), HE)
                    elif which == "wc":
                        self._api("get_word_completions", lambda: h.get_word_completions(self.rng.choice(["", "pu", "purple-sa"])), HE)
                    elif which == "np" and self.np_chosen:
                        self._api("choose_nameplate(again)", lambda: h.choose_nameplate("77"), HE)
                    elif which == "words" and (self.words_chosen or not self.np_chosen):
                        self._api("choose_words(misuse)", lambda: h.choose_words("a-b"), HE)
                    elif which == "badnp":
                        self._api("choose_nameplate(bad)", lambda: h.choose_nameplate(" x"), HE)
                acts.append(((name, "misuse"), f))
        if self.code_done and self.budget["code2"] > 0 and not closing:
            def f():
                self.budget["code2"] -= 1
                which = self.rng.choice(["alloc", "set", "input"])
                fn = {"alloc": lambda: app.w.allocate_code(), "set": lambda: app.w.set_code("9-x-y"),
                      "input": lambda: app.w.input_code()}[which]
                before = len(self.api_exc)
                self.ncalls += 1
                try:
                    fn()
                    self.api_exc.append((self.world.step, "second code call " + which, "no exception", ""))
                except Exception as e:
                    if type(e).__name__ != "OnlyOneCodeError":
                        self.api_exc.append((self.world.step, "second code call " + which, type(e).__name__, repr(e)[:200]))
            acts.append(((name, "code2"), f))
        if self.dilate_budget > 0 and not closing:
            kinds = app.kinds()
            peer_dilate_seen = self.dilate_gate == "peer-dilate" and "versions" not in kinds and any(
                m.get("type") == "message" and str(m.get("phase", "")).startswith("dilate-") and m.get("side") != app.w._boss._side for (_, m) in app.inbound)
            if (self.dilate_gate == "now" or (self.dilate_gate == "code" and "code" in kinds) or
                    (self.dilate_gate == "key" and "key" in kinds) or peer_dilate_seen or self.world.step > (120 if self.dilate_gate != "peer-dilate" else 400)):
                def f(in_window=peer_dilate_seen):
                    self.dilate_budget -= 1
                    self.dilated_in_window = bool(in_window)
                    pi = self.rng.choice([None, None, 5, 30, 2.5])       # (seconds; whole numbers are as legal as floats)
                    # (once the wormhole is closed - by the application or by itself after an error the application has
                    #  not been told about yet - the call is refused with WormholeClosed)
                    self._api("dilate", lambda: app.w.dilate(no_listen=self.rng.random() < 0.2, ping_interval=pi), ("WormholeClosed",))
                acts.append(((name, "dilate"), f))
        if self.budget["send"] > 0 and not closing:
            def f():
                self.budget["send"] -= 1
                self._api("send_message", lambda: app.send(("%s:%d" % (name, len(app.sent))).encode() + self.rng.randbytes(self.rng.randint(0, 50))))
            acts.append(((name, "send"), f))
        if self.budget["get"] > 0 and app.api == "deferred":
            acts.append(((name, "get"), self.do_get))
        if self.budget["derive"] > 0 and not closing:
            def f():
                self.budget["derive"] -= 1
                self._api("derive_key", lambda: app.w.derive_key("purpose %d" % self.rng.randint(0, 3), self.rng.choice([1, 16, 32])),
                          ("NoKeyError",))
            acts.append(((name, "derive"), f))
        if self.budget["close"] > 0:
            kinds = app.kinds()
            gate = (self.close_gate == "any" or (self.close_gate == "late" and "key" in kinds) or
                    (self.close_gate == "pake" and self.seen_peer_pake()) or
                    (self.close_gate == "done" and "verifier" in kinds) or self.world.step > (500 if self.close_gate != "never" else 800))
            if gate:
                acts.append(((name, "close"), self.do_close))
        return acts

    def do_get(self):
        self.budget["get"] -= 1
        what = self.rng.choice(["welcome", "code", "unverified_key", "verifier", "versions", "message"])
        self._api("get_" + what, lambda: self.app.extra_get(what))

    def do_close(self):
        self.budget["close"] -= 1
        if self.name == "A":
            self.shared["a_closed"] = True
        self._api("close", self.app.close)


class Driver:
    def __init__(self, world, spec):
        self.world = world
        rng = world.work_rng
        self.shared = {}
        self.progs = [Prog(world, "A", rng, self.shared, spec), Prog(world, "B", rng, self.shared, spec)]
        self.spec = spec
        self.third_done = False
        self.drops = 0
        self.drops_skipped = 0

    def actions(self):
        a = self.progs[0].app
        if a.code and "code" not in self.shared:
            self.shared["code"] = a.code
        if self.progs[0].method == "set" and "code" not in self.shared:
            pass
        acts = []
        for p in self.progs:
            for (k, f) in p.actions():
                acts.append((("app",) + k, f))
        if self.spec.get("third") and not self.third_done and self.shared.get("code") and self.world.work_rng.random() < 0.15:
            def mk():
                self.third_done = True
                self.progs.append(Prog(self.world, "C", self.world.work_rng, self.shared, self.spec))
            acts.append((("app", "C", "create"), mk))
        return acts

    drain_actions = actions

    def drop(self, idx):
        p = self.progs[idx % len(self.progs)]
        if not rc_of(p.app.w)._have_made_a_successful_connection:
            self.drops_skipped += 1
            return
        link = client_link(self.world, p.app.w)
        if link is None:
            self.drops_skipped += 1
            return
        self.world.reactor.cut(link)
        self.drops += 1


def run_case(spec):
    world = World(spec["seed"], mailbox_mode=spec.get("mode", "tcp"), welcome_error=spec.get("welcome_error"))
    rng = world.work_rng
    drv = Driver(world, spec)
    if drv.progs[0].method == "set":
        drv.shared["code"] = "%d-%s" % (rng.randint(1, 300), "-".join(rng.sample(WORDS, 2)))
    world.adversary = ReorderDup(world, p_dup=rng.choice([0.0, 0.2, 0.4]))
    if spec.get("version_last"):
        # the server hands B the peer's first dilation message before the peer's version message (any order is conformant),
        # and B's application calls dilate() in between
        pb_ = drv.progs[1]
        pb_.dilate_gate = "peer-dilate"
        pb_.dilate_budget = 1
        drv.progs[0].dilate_gate = "now"
        drv.progs[0].dilate_budget = 1
        adv_ = world.adversary
        base_actions_ = adv_.actions

        def held_back(conn, kw):
            return (conn._side == pb_.app.w._boss._side and kw.get("phase") == "version" and kw.get("side") != conn._side
                    and pb_.dilate_budget > 0 and world.step < 380)

        def actions_():
            acts = []
            for cid, lst in adv_.pool.items():
                if any(not held_back(c_, kw_) for (c_, kw_, _) in lst):
                    acts.append((("adv", cid), lambda cid=cid: release_(cid)))
            return acts

        def release_(cid):
            lst = adv_.pool[cid]
            idx = [i for i, (c_, kw_, _) in enumerate(lst) if not held_back(c_, kw_)]
            i = rng.choice(idx)
            conn, kw, seq = lst.pop(i)
            adv_.released += 1
            if i != 0:
                adv_.out_of_order += 1
            conn.real_send("message", **kw)
        adv_.actions = actions_
    sch = Scheduler(world, drv, strategy=rng.choice(STRATS), chunking=rng.choice(["whole", "whole", "mixed"]),
                    p_advance=rng.choice([0.0, 0.0, 0.03]))
    sch.advance_ok = lambda: all(rc_of(p.app.w)._have_made_a_successful_connection for p in drv.progs)
    for _ in range(rng.choice([0, 0, 1, 2, 3, 5])):
        sch.faults.append((rng.randint(3, 400), (lambda i=rng.randint(0, 2): drv.drop(i)), "drop"))
    if spec.get("late_welcome_error"):
        def turn_unwelcome():
            world.welcome_override = {"error": "server is shutting down"}
        k = rng.randint(10, 300)
        sch.faults.append((k, turn_unwelcome, "welcome error from now on"))
        sch.faults.append((k + rng.randint(1, 40), (lambda i=rng.randint(0, 1): drv.drop(i)), "drop"))
    sch.faults.sort(key=lambda f: f[0])
    if spec.get("dilate_race"):
        # directed: close() (or loss of the mailbox-independent peer link) at the moment a candidate
        # connection has offered itself to the Connector and its acceptance is still queued
        fired = []

        def hook():
            if fired:
                return
            for p in drv.progs[:2]:
                mgr = getattr(getattr(p.app.w._boss, "_D", None), "_manager", None)
                conn = getattr(mgr, "_connector", None)
                if conn is not None and getattr(conn, "_contenders", None) and state_of(conn) == "connecting":
                    fired.append(p.name)
                    if not p.app.close_calls:
                        p.budget["close"] = max(0, p.budget["close"] - 1)
                        p._api("close", p.app.close)
                    return
        sch.hook = hook
    race = spec.get("prompt_race")
    if race == "drop+close":
        # the connection goes first; the user gives up (close()) once the client has noticed, i.e. while it is
        # offline; the words typed at the prompt arrive after that, still offline; then the network comes back
        fired = []
        pb = drv.progs[1]

        def hook():
            if not fired and pb.seen_peer_pake() and state_of(pb.app.w._boss._M) == "S2B":
                fired.append("drop")
                drv.drop(1)
            elif fired == ["drop"] and state_of(pb.app.w._boss._M) == "S2A" and not pb.app.close_calls:
                fired.append("close")
                pb.offline_closes = 1
                pb.budget["close"] = max(0, pb.budget["close"] - 1)
                pb._api("close", pb.app.close)
        sch.hook = hook
    if race in ("close+drop", "unwelcome"):
        fired = []
        pb = drv.progs[1]

        def hook():
            if fired:
                return
            if race == "close+drop" and pb.app.close_calls:
                fired.append(1)
                drv.drop(1)
            elif race == "unwelcome" and pb.seen_peer_pake():
                fired.append(1)
                world.welcome_override = {"error": "server is shutting down"}
                drv.drop(1)
        sch.hook = hook
    sch.run(900, until=lambda: all(p.app.closed for p in drv.progs) and len(drv.progs) >= 2)
    sch.hook = None
    drv.third_done = True       # no new participants once the wind-down starts
    for p in drv.progs:
        if not p.app.close_calls:
            p.budget["close"] = 1
            p.do_close()
    end = sch.drain(300.0, 10000, until=lambda: all(p.app.closed for p in drv.progs))
    if end == "steps":
        # the step cap, not the virtual-time bound, ended the drain: no verdict on this case
        world.finish()
        return {"inconclusive": "step cap reached in the final drain", "violations": []}
    sch.drain(3.0, 200)
    world.finish()

    viol = []
    third = spec.get("third")

    def wit(extra=None):
        w = {"spec": spec, "methods": {p.name: p.method for p in drv.progs},
             "calls": {p.name: p.app.calls[:40] for p in drv.progs},
             "events": {p.name: events_view(p.app, 40) for p in drv.progs},
             "boss_inputs": {p.name: p.app.binputs[:50] for p in drv.progs},
             "faults": [t for t in sch.trace if t[0] == "fault"], "mode": spec.get("mode")}
        if extra:
            w.update(extra)
        return w
    for k in sorted(set(MON.notrans)):
        viol.append({"key": "C14/NoTransition/%s.%s/%s" % k, "msg": "machine %s in state %s received input %s (%d times)" % (k + (MON.notrans.count(k),)),
                     "witness": wit()})
    seen = set()
    for (tn, rep, why, frame) in MON.errors:
        key = "C14/logged-error/%s/%s" % (tn, frame)
        if tn == "NoTransition" or key in seen:
            continue
        seen.add(key)
        viol.append({"key": key, "msg": "log.err: %s %s (%s)" % (tn, rep, why), "witness": wit()})
    for e in world.escapes:
        key = "C14/escaped/%s/%s" % (e[3], e[1])
        if e[3] == "NoTransition" or key in seen:
            continue
        seen.add(key)
        viol.append({"key": key, "msg": "exception escaped a reactor callback (%s %s): %s" % (e[1], e[2], e[4]),
                     "witness": wit({"traceback": e[5]})})
    for p in drv.progs:
        for (step, label, tn, rep) in p.api_exc:
            if tn == "NoTransition":
                continue   # already reported by the automat monitor with its triple
            key = "C14/api-exception/%s/%s" % (label.split("(")[0], tn)
            if key not in seen:
                seen.add(key)
                viol.append({"key": key, "msg": "%s.%s raised %s %s at step %d" % (p.name, label, tn, rep, step), "witness": wit()})
        if not p.app.closed:
            viol.append({"key": "C14/close-never-completes", "msg": "%s: no closed notification within 300 virtual s" % p.name,
                         "witness": wit()})
            continue
        for v in set(p.app.close_results):
            if v not in DOCUMENTED_VERDICTS and not is_wormhole_error(v):
                viol.append({"key": "C14/close-verdict/" + v, "msg": "%s: close() reported %s (%r)" % (p.name, v, getattr(p.app, "close_raw", None)),
                             "witness": wit()})
    if not third:
        for (cid, side, err, orig) in world.server_errors:
            viol.append({"key": "C14/server-answered-error/%s/%s" % (orig, err),
                         "msg": "the real server answered error %r to a %r command although no third participant exists" % (err, orig),
                         "witness": wit({"server_cmds": [[c, m.get("type")] for (c, s, m) in world.server_cmds][:80]})})
            break
    ntrans = sum(MON.cov.values())
    triples = ["%s.%s/%s" % k for k in MON.cov]
    return {"violations": viol,
            "nontrivial": trace_digest(sch) if ntrans >= 25 else None,
            "counters": {"transitions": ntrans, "api_calls": sum(p.ncalls for p in drv.progs), "api_calls_from_inside_a_notification": sum(p.reentrant_calls for p in drv.progs), "closes_from_the_wordlist_callback": sum(getattr(p, "wordlist_closes", 0) for p in drv.progs), "closes_from_inside_one_particular_notification": sum(getattr(p, "closes_on_kind", 0) for p in drv.progs), **{"close_inside_" + p.kind_closed_on: 1 for p in drv.progs if getattr(p, "kind_closed_on", None)}, "api_calls_from_status_updates": sum(getattr(p, "status_reactions", 0) for p in drv.progs), "closes_from_a_reconnecting_status": sum(getattr(p, "reconnect_closes", 0) for p in drv.progs),
                         "closed_sides": sum(int(p.app.closed) for p in drv.progs),
                         "never_closed_sides": sum(int(not p.app.closed) for p in drv.progs),
                         "drops": drv.drops, "third_clients": int(len(drv.progs) > 2),
                         "adv_dups": world.adversary.dups, "adv_out_of_order": world.adversary.out_of_order,
                         "mode_" + spec.get("mode", "tcp"): 1, "prompt_race_cases": int(bool(spec.get("prompt_race"))), "closes_while_offline_before_the_words": sum(getattr(p, "offline_closes", 0) for p in drv.progs), "dilated_cases": int(bool(spec.get("dilate"))),
                         "dilate_called_between_peer_dilate0_and_peer_version": int(any(getattr(p_, "dilated_in_window", False) for p_ in drv.progs))},
            "sets": {"triples": triples, "verdicts": [v for p in drv.progs for v in p.app.close_results]},
            "sample": {"spec": spec, "methods": {p.name: p.method for p in drv.progs},
                       "calls_A": drv.progs[0].app.calls[:25], "events_A": drv.progs[0].app.kinds(),
                       "verdicts": {p.name: p.app.close_results for p in drv.progs}, "end": end}}


def evidence_extra(counters, sets):
    """list declared (machine,state,input) rows never reached: blind spots are stated"""
    try:
        from .. import boot  # noqa: F401
        import json
        import wormhole._boss as b, wormhole._nameplate as n, wormhole._mailbox as m, wormhole._terminator as t
        import wormhole._code as c, wormhole._allocator as a, wormhole._lister as li, wormhole._input as i
        import wormhole._key as k, wormhole._order as o, wormhole._receive as r, wormhole._send as s
        declared = set()
        for mod, cls in ((b, "Boss"), (n, "Nameplate"), (m, "Mailbox"), (t, "Terminator"), (c, "Code"),
                         (a, "Allocator"), (li, "Lister"), (i, "Input"), (k, "Key"), (k, "_SortedKey"),
                         (o, "Order"), (r, "Receive"), (s, "Send")):
            klass = getattr(mod, cls)
            for (st, inp, out_state, outs) in klass.m._automaton.allTransitions():
                declared.add("%s.%s/%s" % (cls, st.method.__name__, inp.method.__name__))
        reached = {json.loads(x) for x in sets.get("triples", set())}
        return {"declared_rows": len(declared), "declared_rows_reached": len(declared & reached),
                "declared_rows_never_reached": sorted(declared - reached)}
    except Exception as e:  # pragma: no cover
        return {"declared_rows_error": repr(e)}
