"""C15 - Dilation back-pressure pauses every producer and never loses a wake-up."""
from twisted.internet import interfaces
from zope.interface import implementer

from ..env import World
from ..sched import Scheduler
from ..simnet import unwrap
from ..dilation_work import DilatedPair, RecFactory, ScriptDriver
from ..mailbox_work import trace_digest
from ..monitors import MON

PID = "C15"
LEVEL = "exploration"
RULE = ("two real dilated wormholes with tiny randomised L2 send buffers (one write fills them, so the "
        "pause arrives re-entrantly inside a producer's turn); 1-5 producers (push and pull) registered / "
        "unregistered at random on several subchannels, subchannels closed with a producer attached, "
        "producers that ignore pauses, L2 link cuts and replacement; on the receiving side applications "
        "call transport.pauseProducing/resumeProducing/stopProducing at random. Probes between scheduler "
        "steps compare the producers' last signals and the L2 transport's read/write pause state with "
        "Outbound/Inbound state. Non-trivial = at least one transport-initiated pause reached a "
        "registered producer; distinct = decision traces.")
ASSUMPTIONS = ["Noise stand-in", "state probes read Manager._connection, transport.producerPaused/reading between steps"]
FLOORS = {"quick": {"producers_registered_from_inside_another_ones_turn": 30, "probes": 60000, "producer_pauses": 1500, "producer_resumes": 1500, "inbound_pause_calls": 300, "cuts": 60, "unregisters_in_connectionLost": 80, "producers_that_are_false": 100, "producers_left_inside_pause": 50, "pauses_after_connectionLost": 80, "inbound_wakeup_cases_with_a_pause_inside_dataReceived": 30},
          "thorough": {"producers_registered_from_inside_another_ones_turn": 600, "probes": 2000000, "producer_pauses": 50000, "producer_resumes": 50000, "inbound_pause_calls": 10000, "cuts": 2000, "unregisters_in_connectionLost": 2500, "producers_that_are_false": 3000, "producers_left_inside_pause": 1500, "pauses_after_connectionLost": 2500, "inbound_wakeup_cases_with_a_pause_inside_dataReceived": 1200}}


@implementer(interfaces.IPushProducer)
class PushP:
    def __init__(self, drv, proto, ignores=False):
        self.drv, self.proto, self.ignores = drv, proto, ignores
        self.signals = []       # (step, what)
        self.last = None
        self.registered = True
        self.unregistered_at = None
        self.writes = 0
        self.kind = "push"

    def _sig(self, what):
        step = self.drv.world.step
        self.signals.append((step, what))
        self.last = what
        self.drv.signal_log.append((step, self, what))
        if not self.registered and self.unregistered_at is not None and step > self.unregistered_at:
            self.drv.late_signals.append((self.proto.name, what, step, self.unregistered_at))

    def pauseProducing(self):
        self._sig("pause")
        if getattr(self, "leaves_on_pause", False) and self.registered:
            # a producer that takes the pause as its cue to finish (it has nothing more to say anyway)
            self.leaves_on_pause = False
            self.drv.left_on_pause += 1
            self.drv.unregister(self, force=True)
        if getattr(self, "evicts_on_pause", False):
            # a controller that, when the link stalls, cancels another (lower-priority) transfer of the same application:
            # a producer that may come later in the rotation is unregistered from inside this one's pause
            others = [q for q in self.drv.producers if q is not self and q.registered and self.drv.side_of(q.proto) == self.drv.side_of(self.proto)]
            if others:
                self.evicts_on_pause = False
                self.drv.evicted_on_pause = getattr(self.drv, "evicted_on_pause", 0) + 1
                self.drv.unregister(self.drv.rng.choice(others), force=True)

    def resumeProducing(self):
        self._sig("resume")
        if getattr(self, "registers_on_resume", False):
            # an application that starts its next transfer (on another subchannel) as soon as this one may go on:
            # a producer is registered from inside another producer's turn
            self.registers_on_resume = False
            drv = self.drv
            side = drv.side_of(self.proto)
            free = [p for p in drv.protos(side) if drv.alive(p) and not any(q.proto is p and q.registered for q in drv.producers)]
            if free:
                newp = PushP(drv, drv.rng.choice(free))
                drv.producers.append(newp)
                drv.registered_inside_a_turn += 1
                try:
                    newp.proto.transport.registerProducer(newp, True)
                    if newp.last != "pause":
                        drv.produce(newp)
                except Exception as e:
                    newp.registered = False
                    drv.api_errors.append(("registerProducer(from inside resumeProducing)", newp.proto.name, type(e).__name__, repr(e)[:120]))
        # a push producer that has data writes as soon as it is allowed to
        self.drv.produce(self)

    def stopProducing(self):
        self._sig("stop")


class ValuePushP(PushP):
    """a producer written as a value class (what a plain @attr.s / @dataclass gives): __eq__ without __hash__"""
    __hash__ = None

    def __eq__(self, other):
        return self is other


class QueuePushP(PushP):
    """a producer that is also a container (a queue of pending items): it is empty, hence false, most of the time"""

    def __len__(self):
        return 0


class PullP:
    def __init__(self, drv, proto, n):
        self.drv, self.proto, self.n = drv, proto, n
        self.signals = []
        self.last = None
        self.registered = True
        self.unregistered_at = None
        self.writes = 0
        self.kind = "pull"
        self.ignores = False

    def resumeProducing(self):
        step = self.drv.world.step
        self.signals.append((step, "resume"))
        self.drv.signal_log.append((step, self, "resume"))
        ob = self.drv.outbound_of(self.proto)
        if ob is not None and ob._paused:
            self.drv.pull_while_paused.append((self.proto.name, step))
        if not self.registered and self.unregistered_at is not None and step > self.unregistered_at:
            self.drv.late_signals.append((self.proto.name, "resume", step, self.unregistered_at))
        if self.n > 0 and self.drv.alive(self.proto):
            self.n -= 1
            self.drv.produce(self)
        else:
            self.drv.unregister(self, force=True)

    def stopProducing(self):
        self.signals.append((self.drv.world.step, "stop"))


@implementer(interfaces.IPullProducer)
class DeclaredPullP(PullP):
    """a pull producer that declares IPullProducer"""


@implementer(interfaces.IProducer)
class PlainPullP(PullP):
    """a pull producer that declares IProducer only - which is all that twisted.protocols.basic.FileSender, the
    standard pull producer, declares"""


class PausingFactory(RecFactory):
    """like RecFactory, but the protocols sometimes ask for a pause from inside dataReceived (so that
    records later in the same TCP chunk, e.g. a CLOSE, are still dispatched afterwards)"""
    drv = None

    def buildProtocol(self, addr):
        p = RecFactory.buildProtocol(self, addr)
        drv = self.drv
        orig = p.dataReceived

        def dataReceived(data):
            # delivery-level check: data must not reach an application whose pause (asked for in an earlier
            # scheduler step, i.e. not inside the chunk that is being dispatched right now) is still outstanding
            if drv is not None and p in drv.inpaused and drv.inpaused[p] is not True and drv.inpaused[p] < drv.world.step:
                m_ = drv.dp.manager(drv.side_of(p))
                same_conn = m_ is not None and m_._connection is not None and id(m_._connection) == drv.pause_conn.get(p)
                drv.data_while_paused.append((p.name, drv.inpaused[p], drv.world.step, len(data), same_conn))
            orig(data)
            if drv is not None and not drv.stop and drv.budget["inbound"] > 0 and drv.rng.random() < drv.pause_prob:
                drv.budget["inbound"] -= 1
                drv.inbound_calls += 1
                drv.pauses_in_data += 1
                try:
                    p.transport.pauseProducing()
                    drv.inpaused.setdefault(p, drv.world.step)
                    drv.note_pause_conn(p)
                except Exception as e:
                    drv.api_errors.append(("transport.pauseProducing", p.name, type(e).__name__, repr(e)[:160]))
        p.dataReceived = dataReceived
        origm = p.connectionMade

        def connectionMade():
            origm()
            # an application that wants nothing yet (a proxy whose other leg is not connected, say) pauses at once
            if drv is not None and not drv.stop and drv.budget["inbound"] > 0 and drv.rng.random() < 0.2:
                drv.budget["inbound"] -= 1
                drv.inbound_calls += 1
                drv.pauses_in_made += 1
                try:
                    p.transport.pauseProducing()
                    drv.inpaused.setdefault(p, drv.world.step)
                    drv.note_pause_conn(p)
                except Exception as e:
                    drv.api_errors.append(("transport.pauseProducing(from connectionMade)", p.name, type(e).__name__, repr(e)[:160]))
        p.connectionMade = connectionMade
        origl = p.connectionLost

        def connectionLost(reason=None):
            origl(reason)
            # the usual tidy-up: a protocol that had registered a producer lets go of it when its connection ends
            if drv is not None and any(q.proto is p and q.registered for q in drv.producers):
                drv.unregisters_in_connectionLost += 1
                try:
                    p.transport.unregisterProducer()
                except Exception as e:
                    drv.api_errors.append(("unregisterProducer(from connectionLost)", p.name, type(e).__name__, repr(e)[:160]))
                for q in drv.producers:
                    if q.proto is p:
                        q.registered = False
                        q.unregistered_at = drv.world.step
        p.connectionLost = connectionLost
        return p


class Driver:
    def __init__(self, dp, rng):
        self.dp, self.rng, self.world = dp, rng, dp.world
        self.log = dp.log
        self.fa = PausingFactory(dp, "A.accept")
        self.fb = PausingFactory(dp, "B.accept")
        self.fa.drv = self.fb.drv = self
        self.pauses_in_data = 0
        dp.dw["A"].listener_for("p").listen(self.fa)
        dp.dw["B"].listener_for("p").listen(self.fb)
        self.opened = {"A": [], "B": []}
        self.producers = []
        self.signal_log = []
        self.late_signals = []
        self.pull_while_paused = []
        self.api_errors = []
        self.inpaused = {}           # proto -> True while the app has an outstanding pause
        self.budget = {"open": {"A": rng.randint(1, 3), "B": rng.randint(1, 3)}, "reg": rng.randint(2, 8),
                       "inbound": rng.randint(0, 12), "ticks": 120, "close_with": rng.choice([0, 0, 1, 2, 5]),
                       "late_pause": rng.choice([0, 0, 1, 2])}
        self.late_pauses = 0
        self.inbound_calls = 0
        self.stop = False
        self.data_while_paused = []
        self.pause_conn = {}        # proto -> id of the L2 connection in use when the pause was asked for
        self.pause_prob = 0.08
        self.send_and_close = 0
        self.left_on_pause = 0
        self.falsy_producers = 0
        self.unregisters_in_connectionLost = 0
        self.unhashable_tried = 0
        self.pauses_in_made = 0
        self.plain_pull = 0
        self.registered_inside_a_turn = 0

    def side_of(self, proto):
        return proto.name[0]

    def note_pause_conn(self, p):
        m = self.dp.manager(self.side_of(p))
        if p not in self.pause_conn:
            self.pause_conn[p] = id(m._connection) if (m is not None and m._connection is not None) else None

    def outbound_of(self, proto):
        m = self.dp.manager(self.side_of(proto))
        return m._outbound if m is not None else None

    def protos(self, side):
        out = list(self.opened[side])
        f = self.fa if side == "A" else self.fb
        out += [p for (_, p) in f.built]
        return out

    @staticmethod
    def alive(p):
        k = [e[0] for e in p.events]
        return "made" in k and "lost" not in k and not getattr(p, "closed_local", False)

    def produce(self, prod):
        p = prod.proto
        if not self.alive(p):
            return
        prod.writes += 1
        try:
            p.transport.write(b"%s:%d:" % (p.name.encode(), prod.writes) + self.rng.randbytes(self.rng.choice([1, 200, 3000])))
        except Exception as e:
            self.api_errors.append(("write", p.name, type(e).__name__, repr(e)[:120]))

    def unregister(self, prod, force=False):
        if not prod.registered:
            return
        if not force and (not self.alive(prod.proto) or getattr(prod, "closing", False)):
            return       # the subchannel is going away: the wormhole drops the producer itself
        prod.registered = False
        prod.unregistered_at = self.world.step
        sc = prod.proto.transport
        ob = self.outbound_of(prod.proto)
        if ob is not None and sc not in ob._subchannel_producers:
            return       # already dropped when the subchannel closed
        try:
            prod.proto.transport.unregisterProducer()
        except Exception as e:
            self.api_errors.append(("unregisterProducer", prod.proto.name, type(e).__name__, repr(e)[:120]))

    def actions(self):
        if self.stop:
            return []
        rng = self.rng
        acts = []
        for side in "AB":
            if self.budget["open"][side] > 0 and self.dp.manager(side) is not None:
                def op(side=side):
                    self.budget["open"][side] -= 1
                    f = PausingFactory(self.dp, "%s.open" % side)
                    f.drv = self
                    d = self.dp.dw[side].connector_for("p").connect(f)
                    d.addCallback(lambda p: self.opened[side].append(p))
                acts.append((("app", side, "open"), op))
            live = [p for p in self.protos(side) if self.alive(p)]
            free = [p for p in live if not any(q.proto is p and q.registered for q in self.producers)]
            if free and self.budget["reg"] > 0:
                def reg(free=free):
                    self.budget["reg"] -= 1
                    p = rng.choice(free)
                    if rng.random() < 0.65:
                        if rng.random() < 0.06:
                            # an unhashable producer: refusing it is fine, but it must not harm the others
                            bad = ValuePushP(self, p)
                            self.unhashable_tried += 1
                            try:
                                p.transport.registerProducer(bad, True)
                                self.producers.append(bad)
                                return
                            except TypeError:
                                pass
                            except Exception as e:
                                self.api_errors.append(("registerProducer(unhashable)", p.name, type(e).__name__, repr(e)[:120]))
                            # the application falls back to an ordinary producer for this subchannel
                        prod = (QueuePushP if rng.random() < 0.2 else PushP)(self, p, ignores=rng.random() < 0.15)
                        prod.leaves_on_pause = rng.random() < 0.12
                        prod.evicts_on_pause = rng.random() < 0.15
                        prod.registers_on_resume = rng.random() < 0.3
                        self.falsy_producers += int(isinstance(prod, QueuePushP))
                        streaming = True
                    else:
                        prod = (PlainPullP if rng.random() < 0.4 else DeclaredPullP)(self, p, rng.randint(1, 6))
                        self.plain_pull += int(isinstance(prod, PlainPullP))
                        prod.may_leave_early = rng.random() < 0.25
                        streaming = False
                    self.producers.append(prod)
                    try:
                        p.transport.registerProducer(prod, streaming)
                    except Exception as e:
                        prod.registered = False
                        self.api_errors.append(("registerProducer", p.name, type(e).__name__, repr(e)[:120]))
                        return
                    if streaming and prod.last != "pause":
                        self.produce(prod)       # starts producing at once unless it was told to wait
                acts.append((("app", side, "register"), reg))
            regd = [q for q in self.producers if q.registered and self.side_of(q.proto) == side]
            # most pull producers behave like FileSender: they stay until they have produced everything
            unregable = [q for q in regd if q.kind == "push" or getattr(q, "may_leave_early", False)]
            for q in regd:
                if q.kind == "push" and self.budget["ticks"] > 0 and (q.last in (None, "resume") or q.ignores):
                    def tick(q=q):
                        self.budget["ticks"] -= 1
                        self.produce(q)
                    acts.append((("app", side, "tick", id(q) % 997), tick))
            if unregable and rng.random() < 0.15:
                def unreg(regd=unregable):
                    self.unregister(rng.choice(regd))
                acts.append((("app", side, "unregister"), unreg))
            closable = [q for q in regd if self.alive(q.proto)]
            if closable and self.budget["close_with"] > 0 and rng.random() < 0.06:
                def close_with(regd=closable):
                    self.budget["close_with"] -= 1
                    q = rng.choice(regd)
                    q.proto.closed_local = True
                    q.closing = True          # stays registered until the subchannel is really closed
                    try:
                        q.proto.transport.loseConnection()
                    except Exception as e:
                        self.api_errors.append(("loseConnection", q.proto.name, type(e).__name__, repr(e)[:120]))
                acts.append((("app", side, "close-with-producer"), close_with))
            if live and self.send_and_close > 0:
                # the last data and the CLOSE leave together, so the receiving application may pause inside the very
                # dataReceived after which the subchannel closes
                mine = [p for p in self.opened[side] if self.alive(p)]
                if mine:
                    def sac(mine=mine):
                        self.send_and_close -= 1
                        p = rng.choice(mine)
                        try:
                            p.transport.write(b"%s:last:" % p.name.encode() + rng.randbytes(50))
                            p.closed_local = True
                            p.transport.loseConnection()
                        except Exception as e:
                            self.api_errors.append(("send-and-close", p.name, type(e).__name__, repr(e)[:120]))
                    acts.append((("app", side, "send-and-close"), sac))
                if len(mine) >= 2:
                    def burst(mine=mine):
                        # data for several subchannels and the CLOSE of the last one leave in one flush
                        self.send_and_close -= 1
                        ps = rng.sample(mine, min(len(mine), rng.randint(2, 3)))
                        try:
                            for p in ps:
                                p.transport.write(b"%s:burst:" % p.name.encode() + rng.randbytes(30))
                            ps[-1].closed_local = True
                            ps[-1].transport.loseConnection()
                        except Exception as e:
                            self.api_errors.append(("burst", ps[-1].name, type(e).__name__, repr(e)[:120]))
                    acts.append((("app", side, "burst"), burst))
            if live and self.budget["inbound"] > 0:
                def inb(live=live):
                    self.budget["inbound"] -= 1
                    self.inbound_calls += 1
                    p = rng.choice(live)
                    what = rng.choice(["pause", "pause", "resume", "resume", "stop"])
                    try:
                        if what == "pause":
                            p.transport.pauseProducing()
                            self.inpaused.setdefault(p, self.world.step)
                            self.note_pause_conn(p)
                        elif what == "resume":
                            p.transport.resumeProducing()
                            self.inpaused.pop(p, None)
                            self.pause_conn.pop(p, None)
                        else:
                            p.transport.stopProducing()
                            self.inpaused.pop(p, None)
                            self.pause_conn.pop(p, None)
                    except Exception as e:
                        self.api_errors.append(("transport.%sProducing" % what, p.name, type(e).__name__, repr(e)[:160]))
                acts.append((("app", side, "inbound"), inb))
            # a pause request that arrives for a subchannel which has already gone (a downstream consumer that is still
            # wired to the dead transport as its producer reports back-pressure late)
            dead = [p for p in self.protos(side) if "lost" in [e[0] for e in p.events]]
            if dead and self.budget["late_pause"] > 0:
                def latep(dead=dead):
                    self.budget["late_pause"] -= 1
                    self.late_pauses += 1
                    p = rng.choice(dead)
                    try:
                        p.transport.pauseProducing()
                    except Exception as e:
                        self.api_errors.append(("transport.pauseProducing(after connectionLost)", p.name, type(e).__name__, repr(e)[:160]))
                acts.append((("app", side, "late-pause"), latep))
        return acts

    drain_actions = actions


def cases(tier, seed, prep=None):
    n = 330 if tier == "quick" else 11000
    out = [{"seed": seed * 1000003 + 1500000 + i, "cuts": [0, 0, 1, 2][i % 4]} for i in range(n)]
    out += [{"seed": seed * 1000003 + 1550000 + i, "cuts": [0, 0, 1][i % 3], "multipause": True} for i in range(120 if tier == "quick" else 4000)]
    # inbound wake-up: an application pauses from inside dataReceived() while further records (for it, for other
    # subchannels, a CLOSE) are in the same read; once nobody asks for a pause any more, everything that has arrived
    # must be handed over although the peer says nothing further
    out += [{"kind": "inbound-wakeup", "seed": seed * 1000003 + 1580000 + i, "release": ["resume", "stop", "resume-both", "resume"][i % 4],
             "nsub": 1 + i % 3, "then_close": i % 5 < 2, "dir": "AB"[(i // 2) % 2]} for i in range(40 if tier == "quick" else 1500)]
    return out


def run_inbound_wakeup(spec):
    world = World(spec["seed"])
    rng = world.work_rng
    dp = DilatedPair(world, ping_interval=600.0)       # no ping comes to the rescue within the window that is judged
    drv = ScriptDriver(dp, rng, names=("p",), max_opens=0, max_writes=0, late_listen=0.0, close_prob=0.0)
    sch = Scheduler(world, drv, strategy=rng.choice(["random", "netfirst"]), chunking="whole")
    sch.run(3000, until=dp.both_connected)
    src, dst = spec["dir"], ("B" if spec["dir"] == "A" else "A")
    recs = [drv.open(src, "p") for _ in range(spec["nsub"])]
    sch.run(3000, until=lambda: all(x["proto"] is not None for x in recs) and len(drv.factories[dst]["p"].built) >= len(recs))
    if any(x["proto"] is None for x in recs) or len(drv.factories[dst]["p"].built) < len(recs):
        world.finish()
        return {"inconclusive": "subchannels did not open", "violations": []}
    sch.drain(2.0, 1500)
    senders = [x["proto"] for x in recs]
    receivers = [q for (_, q) in drv.factories[dst]["p"].built][:len(recs)]
    pausers = [receivers[0]] if spec["release"] != "resume-both" else receivers[:2]
    paused = []

    def react(p_, kind):
        if kind == "data" and p_ in pausers and p_ not in paused:
            paused.append(p_)
            p_.transport.pauseProducing()
    for q in receivers:
        q.react = react
    n = rng.randint(2, 12)
    for i in range(n):                       # one reactor turn: the records travel in one read
        drv.write(rng.choice(senders) if i else senders[0], b"w:%d:" % i + rng.randbytes(rng.choice([1, 30, 500])))
    closed = []
    if spec.get("then_close"):
        c = rng.choice(senders)
        drv.close(c)
        closed.append(c)
    sch.drain(3.0, 3000)
    before = sum(len([e for e in q.events if e[0] == "data"]) for q in receivers)
    api_errors = []
    for q in list(paused):
        try:
            if spec["release"] == "stop":
                q.transport.stopProducing()
            else:
                q.transport.resumeProducing()
        except Exception as e:
            api_errors.append((type(e).__name__, repr(e)[:120]))
        if spec["release"] == "resume-both" and q is paused[0] and len(paused) > 1:
            sch.drain(1.0, 500)             # one pause is still outstanding: nothing moves yet
    sch.drain(20.0, 4000)
    viol = []
    wit = {"spec": spec, "writes": n, "delivered_before_release": before, "paused": [q.name for q in paused],
           "events": {q.name: [e[0] for e in q.events][:14] for q in receivers}, "api_errors": api_errors}
    missing = 0
    for s_, q in zip(senders, receivers):
        got = [e[1] for e in q.events if e[0] == "data"]
        if got != getattr(s_, "sent", []):
            missing += len(getattr(s_, "sent", [])) - len(got)
    if paused and missing:
        viol.append({"key": "C15/inbound-wakeup-lost/arrived-but-not-delivered-after-%s" % ("stopProducing" if spec["release"] == "stop" else "resume"),
                     "msg": "%d records for %d subchannels written in one turn; %s paused inside dataReceived() (%d handed over by then) and released the pause later: %d records still not delivered 20 virtual s after nobody asks for a pause, the peer being silent" % (
                         n, len(senders), [q.name for q in paused], before, missing), "witness": wit})
    for c in closed:
        q = receivers[senders.index(c)]
        if paused and "lost" not in [e[0] for e in q.events]:
            viol.append({"key": "C15/inbound-wakeup-lost/close-not-delivered", "msg": "the CLOSE that travelled in the paused read was not handed to %s after the pause was released" % q.name, "witness": wit})
    for (tn, rep) in api_errors[:1]:
        viol.append({"key": "C15/api-raises/release/%s" % tn, "msg": rep, "witness": wit})
    dp.a.close()
    dp.b.close()
    sch.drain(120.0, 10000, until=lambda: dp.a.closed and dp.b.closed)
    world.finish()
    return {"violations": viol, "nontrivial": ["inbound-wakeup", spec["seed"], n, before] if paused else None,
            "counters": {"inbound_wakeup_cases_with_a_pause_inside_dataReceived": int(bool(paused)), "inbound_wakeup_records_withheld_at_release": max(0, n - before),
                         "inbound_pause_calls": len(paused)},
            "sets": {}, "sample": {"spec": spec, "writes": n, "before": before}}


def run_case(spec):
    if spec.get("kind") == "inbound-wakeup":
        return run_inbound_wakeup(spec)
    world = World(spec["seed"])
    rng = world.work_rng
    r = world.reactor
    r.default_buffer_size = rng.choice([1, 50, 300, 2000, 20000])
    r.wire_capacity = rng.choice([200, 5000, 2 ** 18])
    dp = DilatedPair(world, ping_interval=rng.choice([None, 5.0]))
    drv = Driver(dp, rng)
    if spec.get("multipause"):
        # several subchannels, applications that pause often and inside dataReceived, openers that send-and-close
        drv.budget["open"] = {"A": 3, "B": 3}
        drv.budget["inbound"] = rng.randint(10, 25)
        drv.budget["reg"] = rng.randint(0, 2)
        drv.pause_prob = 0.7
        drv.send_and_close = rng.randint(3, 6)
    if spec.get("multipause"):
        # application steps first and whole-buffer delivery: records of several subchannels arrive in one chunk
        sch = Scheduler(world, drv, strategy=rng.choice(["appfirst", "appfirst", "random"]), chunking="whole")
    else:
        sch = Scheduler(world, drv, strategy=rng.choice(["random", "pct", "appfirst", "netfirst"]), chunking=rng.choice(["whole", "mixed"]))
    stats = {"probes": 0, "cuts": 0}
    viols = {}

    def flag(key, msg):
        if key not in viols:
            viols[key] = (msg, world.step)

    def hook():
        stats["probes"] += 1
        for q in drv.producers:
            if q.registered and "lost" in [e[0] for e in q.proto.events]:
                q.registered = False
                q.unregistered_at = world.step
        for side in "AB":
            m = dp.manager(side)
            if m is None:
                continue
            conn = m._connection
            t = conn.transport if conn is not None else None
            blocked = conn is None or t is None or not t.connected or bool(t.producerPaused)
            ob = m._outbound
            regs = [q for q in drv.producers if q.registered and drv.side_of(q.proto) == side and q.kind == "push" and drv.alive(q.proto)]
            for q in regs:
                if blocked and q.last not in ("pause",):
                    flag("C15/producer-not-paused-while-blocked",
                         "%s: push producer on %s has last signal %r although %s" % (side, q.proto.name, q.last, "there is no connection" if conn is None else "the L2 transport paused us"))
                if not blocked and not ob._paused and q.last == "pause":
                    flag("C15/lost-wakeup", "%s: L2 transport is writable and Outbound is unpaused but the producer on %s is still paused (signals %s)" % (
                        side, q.proto.name, q.signals[-4:]))
            # inbound: reads paused iff some live subchannel has an outstanding pause
            if conn is not None and t is not None and t.connected and not t.disconnecting:
                want = any("lost" not in [e[0] for e in p.events] for p in drv.inpaused if drv.side_of(p) == side)
                if want and t.reading:
                    flag("C15/inbound-not-paused", "%s: a subchannel application asked for a pause but the L2 transport is still reading" % side)
                if not want and not t.reading:
                    flag("C15/inbound-paused-without-request" + ("/closed-subchannel-still-counted" if m._inbound._paused_subchannels else ""),
                         "%s: no live subchannel has an outstanding pause but the L2 transport does not read (Inbound counts %d pausing subchannels)" % (
                             side, len(m._inbound._paused_subchannels)))
    sch.hook = hook
    for i in range(spec["cuts"]):
        def cut():
            link = dp.selected_link()
            if link is not None:
                stats["cuts"] += 1
                r.cut(link)
        sch.faults.append((rng.randint(150, 600), cut, "cut L2"))
    sch.faults.sort(key=lambda f: f[0])
    sch.run(1100)
    drv.budget["reg"] = 0
    drv.budget["open"] = {"A": 0, "B": 0}
    drv.budget["inbound"] = 0
    # release every inbound pause so that everything can drain
    for p in list(drv.inpaused):
        try:
            p.transport.resumeProducing()
        except Exception as e:
            drv.api_errors.append(("transport.resumeProducing", p.name, type(e).__name__, repr(e)[:160]))
        drv.inpaused.pop(p, None)
    sch.drain(120.0, 30000, until=lambda: False)
    # fairness: between two turns of the same producer every other continuously registered push
    # producer of that side that was waiting got a turn
    fairness = None
    for side in "AB":
        seq = [(s, q) for (s, q, w) in drv.signal_log if w == "resume" and drv.side_of(q.proto) == side and q.kind == "push"]
        lastpos = {}
        for i, (s, q) in enumerate(seq):
            if q in lastpos:
                between = {x for (_, x) in seq[lastpos[q] + 1:i]}
                s0 = seq[lastpos[q]][0]
                for other in drv.producers:
                    if other is q or other.kind != "push" or drv.side_of(other.proto) != side or other in between:
                        continue
                    reg_from = other.signals[0][0] if other.signals else None
                    cont = other.registered or (other.unregistered_at is not None and other.unregistered_at > s)
                    # (strictly before: a producer that was registered, and paused, from inside this very turn joins the end
                    #  of the line behind the producer whose turn it is - it was not waiting when that turn was given)
                    waiting = any(w == "pause" and st < s0 for (st, w) in other.signals) and cont and reg_from is not None and reg_from < s0
                    last_before = [w for (st, w) in other.signals if st < s0]
                    if waiting and last_before and last_before[-1] == "pause" and drv.alive(other.proto):
                        fairness = "%s: producer on %s got two turns (steps %d, %d) while the paused producer on %s got none" % (side, q.proto.name, s0, s, other.proto.name)
            lastpos[q] = i
    viol = []
    # pull producers: once everything has drained (link writable, Outbound unpaused), a pull producer
    # that still has data and is still registered on a live subchannel must have been given its turns
    starved = None
    pull_finished = 0
    for q in drv.producers:
        if q.kind != "pull":
            continue
        if q.n == 0 or not q.registered:
            pull_finished += 1
            continue
        side = drv.side_of(q.proto)
        m = dp.manager(side)
        conn = m._connection if m is not None else None
        t = conn.transport if conn is not None else None
        writable = t is not None and t.connected and not t.producerPaused and not m._outbound._paused
        if writable and drv.alive(q.proto) and not getattr(q, "closing", False):
            starved = "%s: pull producer on %s still has %d writes to make, got %d resumeProducing calls (last at step %s), but the link is writable and Outbound is not paused at the end of the drain" % (
                side, q.proto.name, q.n, len(q.signals), q.signals[-1][0] if q.signals else None)

    def wit():
        return {"spec": spec, "buffer_size": r.default_buffer_size, "wire_capacity": r.wire_capacity,
                "producers": [(q.proto.name, q.kind, q.ignores, q.registered, q.signals[-6:]) for q in drv.producers][:8],
                "api_errors": drv.api_errors[:6], "log_tail": dp.log[-20:], "states": {n: dp.mstate(n) for n in "AB"}}
    for k, (msg, step) in viols.items():
        viol.append({"key": k, "msg": "%s (first at step %d)" % (msg, step), "witness": wit()})
    if fairness:
        viol.append({"key": "C15/unfair-turns", "msg": fairness, "witness": wit()})
    if starved:
        viol.append({"key": "C15/pull-producer-starved", "msg": starved, "witness": wit()})
    seen_k = set()
    for (name, ps, st, n, same_conn) in drv.data_while_paused:
        # one mechanism is keyed on its own: records that a REPLACEMENT connection had parked between the Leader's KCM
        # and its selection are dispatched before Inbound gets to pause that connection
        k = "C15/data-delivered-to-paused-subchannel/" + ("same-connection" if same_conn else "parked-records-of-replacement-connection")
        if k not in seen_k:
            seen_k.add(k)
            viol.append({"key": k, "msg": "%s asked for a pause at step %d and was handed %d bytes at step %d (%d such deliveries in this case)" % (
                name, ps, n, st, len(drv.data_while_paused)), "witness": wit()})
    for (name, what, step, at) in drv.late_signals[:1]:
        viol.append({"key": "C15/signal-after-unregister/" + what, "msg": "producer on %s got %s at step %d, unregistered at %d" % (name, what, step, at), "witness": wit()})
    for (name, step) in drv.pull_while_paused[:1]:
        viol.append({"key": "C15/pull-producer-resumed-while-paused", "msg": "pull producer on %s was asked for data at step %d while Outbound was paused" % (name, step), "witness": wit()})
    seen = set()
    for (what, name, tn, rep) in drv.api_errors:
        k = "C15/api-raises/%s/%s" % (what, tn)
        if k not in seen:
            seen.add(k)
            viol.append({"key": k, "msg": "%s on %s raised %s" % (what, name, rep), "witness": wit()})
    dp.a.close()
    dp.b.close()
    sch.hook = None
    sch.drain(120.0, 10000, until=lambda: dp.a.closed and dp.b.closed)
    world.finish()
    pauses = sum(1 for (_, q, w) in drv.signal_log if w == "pause")
    resumes = sum(1 for (_, q, w) in drv.signal_log if w == "resume")
    return {"violations": viol, "nontrivial": trace_digest(sch) if pauses else None,
            "counters": {"probes": stats["probes"], "producer_pauses": pauses, "producer_resumes": resumes,
                         "producers": len(drv.producers), "pull_producers": sum(q.kind == "pull" for q in drv.producers), "pull_producers_finished": pull_finished,
                         "inbound_pause_calls": drv.inbound_calls, "pauses_inside_dataReceived": drv.pauses_in_data, "cuts": stats["cuts"], "notrans_seen": len(MON.notrans),
                         "log_errors_seen": len(MON.errors), "producers_that_are_false": drv.falsy_producers, "producers_left_inside_pause": drv.left_on_pause, "producers_unregistered_by_another_ones_pause": getattr(drv, "evicted_on_pause", 0), "pauses_after_connectionLost": drv.late_pauses, "unregisters_in_connectionLost": drv.unregisters_in_connectionLost, "unhashable_producers_tried": drv.unhashable_tried, "pauses_inside_connectionMade": drv.pauses_in_made, "producers_registered_from_inside_another_ones_turn": drv.registered_inside_a_turn, "pull_producers_declaring_IProducer_only": drv.plain_pull},
            "sets": {"logged_errors": sorted({e[0] + ":" + e[3] for e in MON.errors})},
            "sample": {"spec": spec, "buffer_size": r.default_buffer_size,
                       "producers": [(q.proto.name, q.kind, [w for (_, w) in q.signals][:10]) for q in drv.producers][:5],
                       "pauses": pauses, "resumes": resumes, "inbound_calls": drv.inbound_calls}}
