"""C04 - a completed transfer is byte-exact; success is never reported otherwise."""
import ast
import re
import hashlib
import io
import os
import shutil

from twisted.internet import defer

from ..env import World, URL, RELAY_HINT
from ..sched import Scheduler
from ..transit_work import Result
from ..cli_work import (mkargs, outcome, snapshot, force_rmtree, StreamFault, make_tree, new_sandbox)

from wormhole import create
from wormhole.cli import cmd_send, cmd_receive
from wormhole.transit import TransitReceiver
from wormhole.util import bytes_to_dict, dict_to_bytes, bytes_to_hexstr

PID = "C04"
LEVEL = "fault_enumeration"
RULE = ("real cmd_send.send()/cmd_receive.receive() against the real server, transit over SimNet "
        "(direct or through the real relay); payloads: text (unicode, quotes, control/bidi chars, "
        "newlines), files of 0,1,16383,16384,16385,32767..65536,100000,<=1MB random bytes, directory "
        "trees with empty dirs and odd names; in 30% of the file cases a stale <name>.tmp (shorter or longer than "
        "the file) from an earlier interrupted attempt lies in the receiver's directory; directory trees with dangling "
        "links sent with --ignore-unsendable-files (everything else must arrive); random TCP chunking; faults swept over the transit "
        "stream: cut/flip of the data direction at byte k (length prefix, nonce, ciphertext, record "
        "boundaries +-1, last byte, fractions), cut/flip inside the ack; a scripted receiver that lies "
        "in its ack (wrong hash, not ok, garbage, none). Non-trivial = transit was established (or text "
        "delivered); distinct = (payload kind, size, fault, position, path).")
ASSUMPTIONS = ["file modes/timestamps are not compared", "a leftover <dest>.tmp after a failure is allowed",
               "sizes <= ~1 MB, trees <= 12 entries"]
FLOORS = {"quick": {"receiver_failed_at_the_disk_limit": 15, "clean_success": 60, "data_faults_fired": 50, "ack_faults_fired": 10, "liar_cases": 20, "grow_cases": 15, "stale_tmp_cases": 30, "unsendable_entries_skipped": 20, "mode_zeromode": 5, "mode_verify-yes": 10, "mode_verify-no": 5, "mode_sender-allocates": 5, "mode_receiver-allocates": 5,
                    "dest_inbox-old_file_prompt": 2, "dest_inbox-empty_directory_prompt": 2, "dest_newname_directory_prompt": 2},
          "thorough": {"receiver_failed_at_the_disk_limit": 500, "clean_success": 2000, "data_faults_fired": 4000, "ack_faults_fired": 250, "liar_cases": 800, "mode_zeromode": 150, "mode_verify-yes": 300, "mode_verify-no": 150, "mode_sender-allocates": 150, "mode_receiver-allocates": 150}}
APPID = "lothar.com/wormhole/text-or-file-xfer"
TEXTS = ["hello", "", "it's \"quoted\"", "line1\nline2\r\n\ttab", "\x1b[31mred\x1b[0m \x07bell", "‮evil‬ bidi",
         "ünïcödé ✓ 𝔘", "'", '"', "\\", "\\n", "a" * 5000, "\x00nul", " sep", "'\"'"]


def cases(tier, seed, prep=None):
    out = []
    q = tier == "quick"
    base = seed * 1000003 + 400000
    k = 0
    for i in range(110 if q else 3000):
        out.append({"kind": "clean", "payload": ["text", "file", "file", "directory"][i % 4], "seed": base + k, "relay": i % 5 == 0})
        k += 1
    positions = [["abs", 0], ["abs", 1], ["abs", 3], ["abs", 14], ["abs", 40], ["abs", 49], ["last", 0], ["last", 1],
                 ["rec", 1, -1], ["rec", 1, 0], ["rec", 1, 1], ["rec", 2, 2], ["frac", 0.25], ["frac", 0.5], ["frac", 0.9]]
    reps = 1 if q else 20
    for rep in range(reps):
        for kindf in ("cut", "flip"):
            for pos in positions:
                for payload in ("file", "directory") if (rep or not q) else ("file",):
                    out.append({"kind": "datafault", "payload": payload, "seed": base + k, "fault": kindf, "pos": pos,
                                "relay": (k % 4 == 0)})
                    k += 1
        extra = 40 if q else 200
        for j in range(extra):
            out.append({"kind": "datafault", "payload": "file", "seed": base + k, "fault": ["cut", "flip"][j % 2],
                        "pos": ["frac", (j * 0.6180339) % 1.0], "relay": j % 6 == 0})
            k += 1
        for kindf in ("cut", "flip"):
            for posk in (0, 1, 3, 10, 30, 50, 90, 130):
                out.append({"kind": "ackfault", "payload": "file", "seed": base + k, "fault": kindf, "pos": ["abs", posk],
                            "relay": k % 3 == 0})
                k += 1
    # record-level manipulation by someone on the path (same byte count, different content)
    for rep in range(2 if q else 40):
        for kindf in ("replace", "swap", "dupdrop"):
            for j in (1, 2, 3):
                out.append({"kind": "datafault", "payload": "file", "seed": base + k, "fault": kindf, "pos": ["frame", j],
                            "relay": k % 3 == 0, "min_records": 5})
                k += 1
    # the file changes between the offer and the transfer (the sender re-measures and reads to EOF)
    for i in range(24 if q else 600):
        out.append({"kind": "grow", "payload": "file", "seed": base + k, "size0": [0, 0, 5, 16384][i % 4], "append": [1, 100, 20000][i % 3],
                    "relay": i % 5 == 0})
        k += 1
    # rarely used options: --ignore-unsendable-files over trees with dangling links, --code-length, --verify off/on
    for i in range(24 if q else 600):
        out.append({"kind": "clean", "payload": "directory", "seed": base + k, "relay": i % 5 == 0, "unsendable": True})
        k += 1
    # ... --zeromode, --verify (answered yes / no), a code allocated by the sender (1-5 words) or by the receiver
    for i in range(48 if q else 1500):
        out.append({"kind": "clean", "payload": ["file", "text", "directory"][i % 3], "seed": base + k, "relay": i % 5 == 0,
                    "mode": ["zeromode", "verify-yes", "verify-no", "sender-allocates", "receiver-allocates", "verify-yes"][i % 6],
                    "code_length": [1, 2, 3, 5][(i // 6) % 4]})
        k += 1
    # the destination: -o naming something new, an existing "inbox" directory (empty, or already holding an older version of
    # the very thing that is being sent), with the receiver's user answering the prompt by hand or --accept-file
    for i in range(48 if q else 1500):
        out.append({"kind": "clean", "payload": ["directory", "file", "directory"][i % 3], "seed": base + k, "relay": i % 7 == 0,
                    "dest": ["inbox-old", "inbox-old", "inbox-empty", "newname"][(i // 3) % 4], "accept": bool((i // 12) % 2)})
        k += 1
    # the receiver's disk takes only part of the file: the limit falls inside the last record
    for i in range(24 if q else 800):
        k += 1
        out.append({"kind": "fsize", "payload": "file", "seed": base + k, "min_records": [1, 1, 2, 5][i % 4], "relay": i % 6 == 0})
    for i in range(40 if q else 1000):
        out.append({"kind": "liar", "payload": "file", "seed": base + k, "lie": ["wrong-hash", "not-ok", "garbage", "never", "hash-empty", "hash-null", "hash-zero", "hash-list", "hash-upper", "hash-prefix"][i % 10]})
        k += 1
    return out


def zip_size(path):
    from zipstream.ng import ZipStream, walk
    zs = ZipStream(sized=True)
    for filepath in walk(path, preserve_empty=True, followlinks=True):
        zs.add_path(filepath, arcname=os.path.relpath(filepath, path), recurse=False)
    return len(zs)


@defer.inlineCallbacks
def lying_receiver(world, code, lie, log):
    r = world.reactor
    w = create(APPID, URL, r)
    w.set_code(code)
    try:
        yield w.get_verifier()
        tr = None
        offer = None
        while offer is None:
            m = bytes_to_dict((yield w.get_message()))
            if "transit" in m:
                tr = TransitReceiver(None, no_listen=False, reactor=r)
                tr.set_transit_key(w.derive_key(APPID + "/transit-key", tr.TRANSIT_KEY_LENGTH))
                tr.add_connection_hints(m["transit"].get("hints-v1", []))
                hints = yield tr.get_connection_hints()
                w.send_message(dict_to_bytes({"transit": {"abilities-v1": tr.get_connection_abilities(), "hints-v1": hints}}))
            if "offer" in m:
                offer = m["offer"]
        size = offer["file"]["filesize"]
        w.send_message(dict_to_bytes({"answer": {"file_ack": "ok"}}))
        rp = yield tr.connect()
        buf = io.BytesIO()
        h = hashlib.sha256()
        yield rp.writeToFile(buf, size, None, h.update)
        log.append(("received", size, h.hexdigest()))
        if lie == "wrong-hash":
            rp.send_record(dict_to_bytes({"ack": "ok", "sha256": hashlib.sha256(b"other" + buf.getvalue()).hexdigest()}))
        elif lie == "not-ok":
            rp.send_record(dict_to_bytes({"ack": "failed", "sha256": h.hexdigest()}))
        elif lie == "garbage":
            rp.send_record(b"\xff\xfe not json")
        elif lie.startswith("hash-"):
            # an acknowledgement whose hash is present but is not the hash of what was sent
            good = h.hexdigest()
            bad = {"hash-empty": "", "hash-null": None, "hash-zero": 0, "hash-list": [], "hash-upper": good.upper() + "0", "hash-prefix": good[:32]}[lie]
            rp.send_record(dict_to_bytes({"ack": "ok", "sha256": bad}))
        log.append(("lied", lie))
        rp.close()
    finally:
        try:
            yield w.close()
        except Exception:
            pass


def run_case(spec):
    import resource
    world = World(spec["seed"], relay=True)
    rng = world.work_rng
    r = world.reactor
    base = new_sandbox("vt-c04-")
    old_limit = resource.getrlimit(resource.RLIMIT_FSIZE)
    try:
        return _run(spec, world, rng, r, base)
    finally:
        resource.setrlimit(resource.RLIMIT_FSIZE, old_limit)
        world.finish()
        force_rmtree(base)


def _run(spec, world, rng, r, base):
    sd, rd = os.path.join(base, "s"), os.path.join(base, "r")
    os.mkdir(sd)
    os.mkdir(rd)
    payload = spec["payload"]
    code = "%d-%s" % (rng.randint(1, 900), rng.choice(["alpha-beta", "x-y"]))
    helper = RELAY_HINT if spec.get("relay") else None
    listen = not spec.get("relay") or rng.random() < 0.5
    desc = {}
    if payload == "text":
        text = rng.choice(TEXTS) if rng.random() < 0.7 else "".join(
            chr(rng.choice([rng.randint(0, 0x7f), rng.randint(0x80, 0x2fff), rng.randint(0x1f300, 0x1f5ff)])) for _ in range(rng.randint(1, 60)))
        text = text.replace("\ud800", "?")
        from ..cli_work import ANSWERS
        del ANSWERS[:]
        if text == "":
            ANSWERS.append("")      # an empty --text makes the sender prompt: type an empty line
        sa = mkargs(text=text, code=code, transit_helper=helper, listen=listen)
        desc = {"kind": "text", "text": text}
    else:
        unsend = payload == "directory" and spec.get("unsendable", False)
        what, desc = make_tree(rng, sd, payload, unsendable=unsend)
        if spec["kind"] == "grow":
            with open(os.path.join(sd, desc["name"]), "wb") as f:
                f.write(rng.randbytes(spec["size0"]))
            desc["size"] = spec["size0"]
        if spec.get("min_records") and payload == "file":
            n = 16384 * spec["min_records"] + rng.choice([0, 1, 777])
            with open(os.path.join(sd, desc["name"]), "wb") as f:
                f.write(rng.randbytes(n))
            desc["size"] = n
        sa = mkargs(what=what, code=code, transit_helper=helper, listen=listen, ignore_unsendable_files=bool(unsend))
        if payload == "file" and rng.random() < 0.3:
            # what an earlier, interrupted attempt leaves behind in the receiver's directory
            with open(os.path.join(rd, desc["name"] + ".tmp"), "wb") as f:
                f.write(rng.randbytes(rng.choice([1, desc["size"] + 1, desc["size"] + 70000, 200000])))
            desc["stale_tmp"] = True
        if spec["kind"] == "fsize":
            # the receiver's file system takes only part of the file (quota, ulimit -f, disk full): every file this process
            # writes from now on ends at `limit` bytes, which falls inside the last record of the transfer - the write that
            # crosses it is a short write, the next one fails
            import resource
            last = desc["size"] % 16384 or 16384
            limit = desc["size"] - rng.randint(1, last - 1 if last > 1 else 1)
            desc["fsize_limit"] = limit
            resource.setrlimit(resource.RLIMIT_FSIZE, (limit, resource.getrlimit(resource.RLIMIT_FSIZE)[1]))
    sa.cwd = sd
    ra = mkargs(code=code, transit_helper=helper, listen=listen)
    ra.cwd = rd
    dest_root, dest_name = rd, desc.get("name")
    if spec.get("dest") and payload != "text":
        from ..cli_work import ANSWERS
        del ANSWERS[:]
        ra.accept_file = spec["accept"]
        if spec["dest"] == "newname":
            ra.output_file = dest_name = "renamed-" + rng.choice(["x", "y.bin", "z z"])
        else:
            ra.output_file = "inbox"
            dest_root = os.path.join(rd, "inbox")
            os.mkdir(dest_root)
            if spec["dest"] == "inbox-old":
                # an older version of the same thing, received earlier: one member the sender has since deleted, one it has edited
                old = os.path.join(dest_root, desc["name"])
                if payload == "directory":
                    shutil.copytree(os.path.join(sd, desc["name"]), old, symlinks=True)
                    with open(os.path.join(old, "deleted-since.bin"), "wb") as f:
                        f.write(b"stale")
                    for dp, dn, fn in os.walk(old):
                        for n_ in fn[:1]:
                            if not os.path.islink(os.path.join(dp, n_)):
                                os.chmod(os.path.join(dp, n_), 0o600)
                                with open(os.path.join(dp, n_), "ab") as f:
                                    f.write(b"old edit")
                else:
                    with open(old, "wb") as f:
                        f.write(b"the previous version")
    mode = spec.get("mode")
    start_receiver_when = None
    start_sender_when = None
    if mode:
        from ..cli_work import ANSWERS
        if payload == "text" and desc["text"] == "":
            sa.text = desc["text"] = "x"          # (keep the prompts of this case to the one under test)
        del ANSWERS[:]
        if mode == "zeromode":
            sa.code = ra.code = None
            sa.zeromode = ra.zeromode = True
        elif mode.startswith("verify"):
            sa.verify = ra.verify = True
            ANSWERS.append("yes" if mode == "verify-yes" else "no")
        elif mode == "sender-allocates":
            sa.code = None
            sa.code_length = spec["code_length"]
            ra.code = None
            start_receiver_when = lambda: re.search(r"Wormhole code is: (\S+)", sa.stderr.getvalue())
        elif mode == "receiver-allocates":
            ra.code = None
            ra.allocate = True
            ra.code_length = spec["code_length"]
            sa.code = None
            start_sender_when = lambda: re.search(r"Allocated code: (\S+)", ra.stderr.getvalue())
    fault = None
    stream_total = None
    if spec["kind"] in ("datafault", "ackfault"):
        if payload == "file":
            size = desc["size"]
        else:
            size = zip_size(os.path.join(sd, desc["name"]))
        nrec = (size + 16383) // 16384
        stream_total = size + 44 * nrec
        pos = spec["pos"]
        if spec["kind"] == "ackfault":
            k = pos[1]
        elif pos[0] in ("abs", "frame"):
            k = pos[1]
        elif pos[0] == "last":
            k = stream_total - 1 - pos[1]
        elif pos[0] == "rec":
            k = (16384 + 44) * pos[1] + pos[2]
        else:
            k = int(stream_total * pos[1])
        fault = (spec["fault"], "data" if spec["kind"] == "datafault" else "ack", k)
    sf = StreamFault(world, fault)
    sf.install()
    liar_log = []
    cmd_send.reactor = r       # (--verify pauses with the module-level reactor, which is the running reactor in real use)
    sender = cmd_send.Sender(sa, r)           # exactly what cmd_send.send() does
    # "reports success" is the command's exit status: in every second case the outcome goes through the CLI's own
    # error-to-exit-status mapping (cli._dispatch_command), as `wormhole send` / `wormhole receive` do
    via_dispatch = spec["seed"] % 2 == 0
    from wormhole.cli import cli as cli_mod

    def go_of(obj, cfg_):
        if via_dispatch:
            return cli_mod._dispatch_command(r, cfg_, obj.go)
        return obj.go()
    receiver = None
    late = {}
    late_d = {}
    if start_sender_when is not None:
        # the sender is started by hand once the receiver has printed the code it allocated
        late_d["sender"] = defer.Deferred()
        rs = Result(late_d["sender"])
        late["sender"] = start_sender_when
    else:
        rs = Result(go_of(sender, sa))
    if spec["kind"] == "liar":
        rr = Result(lying_receiver(world, code, spec["lie"], liar_log))
    elif start_receiver_when is not None:
        receiver = cmd_receive.Receiver(ra, r)
        late_d["receiver"] = defer.Deferred()
        rr = Result(late_d["receiver"])
        late["receiver"] = start_receiver_when
    else:
        receiver = cmd_receive.Receiver(ra, r)    # exactly what cmd_receive.receive() does
        rr = Result(go_of(receiver, ra))
    exited = set()

    def process_exit(which):
        """the CLI process ends when its Deferred fires: the kernel closes its sockets"""
        if which in exited:
            return
        exited.add(which)
        owner = getattr(sender, "_transit_sender", None) if which == "s" else getattr(receiver, "_transit_receiver", None)
        if owner is None:
            return
        from ..simnet import unwrap
        from twisted.internet import error
        from twisted.python import failure
        for link in r.links:
            for e in link.ends:
                if e.connected and getattr(unwrap(e.protocol), "owner", None) is owner:
                    # what was written long ago is in the kernel by now and still goes out
                    guard = 0
                    while e.outbuf and guard < 1000:
                        e._do_write()
                        guard += 1
                        if len(e.out.wire) >= r.wire_capacity:
                            e.out.wire += bytes(e.outbuf) if e.out.filter is None else e.out.filter(bytes(e.outbuf))
                            e.outbuf.clear()
                    if e.connected:
                        e.out.fin = True
                        e._connection_lost(failure.Failure(error.ConnectionDone()))

    grown = []
    allocated = []

    def hook():
        if spec["kind"] == "grow" and not grown and "Wormhole code is" in sa.stderr.getvalue():
            # the offer (with the old size) has been built: the file grows now
            grown.append(rng.randbytes(spec["append"]))
            with open(os.path.join(sd, desc["name"]), "ab") as f:
                f.write(grown[0])
        for who_ in list(late):
            m_ = late[who_]()
            if m_:
                del late[who_]
                if who_ == "receiver":
                    ra.code = m_.group(1)
                    go_of(receiver, ra).chainDeferred(late_d["receiver"])
                else:
                    sa.code = m_.group(1)
                    go_of(sender, sa).chainDeferred(late_d["sender"])
                allocated.append(m_.group(1))
        if rs.done:
            process_exit("s")
        if rr.done and receiver is not None:
            process_exit("r")
    sch = Scheduler(world, None, strategy=rng.choice(["random", "netfirst", "pct"]), chunking="mixed",
                    tiny_budget=rng.choice([0, 30, 200]))
    sch.hook = hook
    end = sch.run(60000, until=lambda: rs.done and rr.done)
    if not (rs.done and rr.done):
        end = sch.drain(400.0, 200000, until=lambda: rs.done and rr.done)
    so, ro = outcome(rs), outcome(rr)
    transit_used = any(l.tags.get("port") != 4000 for l in r.links)
    viol = []
    src = snapshot(sd)
    dst = snapshot(dest_root)
    wit = {"spec": spec, "payload": desc if payload != "text" else {"kind": "text", "text": repr(desc["text"])[:200]},
           "sender": so, "receiver": ro, "sender_err": repr(rs.failure.value)[:200] if rs.failure else None,
           "receiver_err": repr(rr.failure.value)[:200] if rr.failure else None,
           "fault": fault, "fault_fired": sf.fired is not None, "stream_total": stream_total,
           "dst_listing": sorted(dst)[:20], "receiver_stderr": ra.stderr.getvalue()[-400:], "sender_stderr": sa.stderr.getvalue()[-300:],
           "liar_log": liar_log, "end": end}
    fired = sf.fired is not None
    kind = spec["kind"]
    hang = None
    if so == "pending" or ro == "pending":
        # a side that never finishes has not reported success: not a violation of this property
        hang = "%s %s fault=%s: sender=%s receiver=%s" % (kind, wit["payload"], fault, so, ro)
    # (a) both report success => byte-exact
    if so == "success" and ro == "success" and kind != "liar":
        if payload == "text":
            line = ra.stdout.getvalue()
            if not line.endswith("\n"):
                viol.append({"key": "C04/text/no-newline", "msg": repr(line)[:100], "witness": wit})
            body = line[:-1]
            ok = False
            for q in ("'", '"'):
                try:
                    if ast.literal_eval(q + body + q) == desc["text"]:
                        ok = True
                except Exception:
                    pass
            if not ok:
                viol.append({"key": "C04/text/not-reproduced", "msg": "printed %r for text %r" % (body[:100], desc["text"][:100]), "witness": wit})
            if not body.isprintable():
                viol.append({"key": "C04/text/unsafe-character-printed", "msg": repr(body)[:100], "witness": wit})
        elif payload == "file":
            name = desc["name"]
            if dst.get(dest_name, (None,))[:3] != src[name][:3]:
                viol.append({"key": "C04/file/differs-after-success", "msg": "sent %r received %r" % (src[name][:3], dst.get(dest_name)), "witness": wit})
        else:
            name = desc["name"]
            if dest_name != name:
                dst = {(name + k[len(dest_name):] if k == dest_name or k.startswith(dest_name + os.sep) else "other/" + k): v for k, v in dst.items()}
            s_tree = {k[len(name) + 1:]: (v[:3] if v[0] == "file" else ("dir",)) for k, v in src.items() if k.startswith(name + os.sep)
                      and k[len(name) + 1:] not in desc.get("unsendable", [])}
            d_tree = {k[len(name) + 1:]: (v[:3] if v[0] == "file" else ("dir",)) for k, v in dst.items() if k.startswith(name + os.sep)}
            # a directory that holds nothing but skipped (unsendable) entries was never "read" as an empty directory:
            # whether it shows up at the receiver is not part of the property
            uns = desc.get("unsendable", [])
            if uns:
                for dname in [k for k, v in s_tree.items() if v == ("dir",)]:
                    below_sendable = [k for k in s_tree if k.startswith(dname + os.sep) and s_tree[k] != ("dir",)]
                    below_skipped = [u for u in uns if u.startswith(dname + os.sep)]
                    if below_skipped and not below_sendable:
                        for k in [k for k in list(s_tree) if k == dname or k.startswith(dname + os.sep)]:
                            s_tree.pop(k, None)
                            d_tree.pop(k, None)
            if name not in dst or s_tree != d_tree:
                missing = sorted(set(s_tree) - set(d_tree))[:5]
                extra = sorted(set(d_tree) - set(s_tree))[:5]
                diff = [k for k in s_tree if k in d_tree and s_tree[k] != d_tree[k]][:5]
                viol.append({"key": "C04/directory/differs-after-success", "msg": "missing %s extra %s different %s" % (missing, extra, diff), "witness": wit})
    if spec.get("mode") == "verify-no" and "success" in (so, ro):
        viol.append({"key": "C04/success-after-verification-rejected", "msg": "the sender's user answered no to the verifier prompt; sender=%s receiver=%s, receiver has %s" % (so, ro, sorted(dst)[:4]),
                     "witness": wit})
    # (b) data stream cut/corrupted before the receiver had every byte
    if kind == "datafault" and fired:
        if so == "success" or ro == "success":
            viol.append({"key": "C04/success-after-data-%s/%s" % (spec["fault"], "sender" if so == "success" else "receiver"),
                         "msg": "transit data stream %s at byte %d of %d but sender=%s receiver=%s" % (spec["fault"], fault[2], stream_total, so, ro),
                         "witness": wit})
        final = os.path.join(rd, desc["name"])
        if os.path.lexists(final):
            viol.append({"key": "C04/final-destination-appears-after-data-" + spec["fault"],
                         "msg": "%r exists although the stream was %s at byte %d of %d" % (desc["name"], spec["fault"], fault[2], stream_total),
                         "witness": wit})
    # (c) ack lost / wrong
    if (kind == "ackfault" and fired) or kind == "liar":
        if so == "success":
            viol.append({"key": "C04/sender-success-without-good-ack/" + (spec.get("lie") or "ack-" + spec["fault"]),
                         "msg": "sender reported success although the ack was %s" % (spec.get("lie") or "%s at byte %d" % (spec["fault"], fault[2])),
                         "witness": wit})
    # (d) no fault => both succeed
    if kind == "grow" and so == "success" and ro == "success":
        name = desc["name"]
        if dst.get(name, (None,))[:3] != src[name][:3]:
            viol.append({"key": "C04/file/differs-after-success", "msg": "the file grew from %d to %d bytes after the offer; both sides report success but the receiver has %r" % (
                spec["size0"], src[name][1], dst.get(name)), "witness": wit})
    clean = kind == "clean" or (kind in ("datafault", "ackfault") and not fired)
    clean_failure = None
    if clean and not (so == "success" and ro == "success"):
        # not a violation of the statement (which is conditional on success); reported as evidence
        clean_failure = "%s: sender=%s (%s) receiver=%s (%s)" % (wit["payload"], so, wit["sender_err"], ro, (wit["receiver_err"] or "")[:60])
    nontrivial = None
    if transit_used or payload == "text":
        nontrivial = [kind, payload, desc.get("size", desc.get("entries", len(desc.get("text", "")))), desc.get("name"),
                      spec.get("fault"), spec.get("pos"), spec.get("lie"), bool(spec.get("relay")), fired]
    return {"violations": viol, "nontrivial": nontrivial,
            "counters": {"clean_success": int(clean and so == "success" and ro == "success"),
                         "data_faults_fired": int(kind == "datafault" and fired), "ack_faults_fired": int(kind == "ackfault" and fired),
                         "liar_cases": int(kind == "liar" and bool(liar_log)), "hard_linked_entries_sent": desc.get("hardlinks", 0), "receiver_disk_limit_inside_the_last_record": int(kind == "fsize"), "receiver_failed_at_the_disk_limit": int(kind == "fsize" and ro != "success"), "grow_cases": int(kind == "grow" and bool(grown)), "stale_tmp_cases": int(bool(desc.get("stale_tmp"))), "unsendable_entries_skipped": len(desc.get("unsendable", [])), "clean_failed": int(bool(clean_failure)), "hangs": int(bool(hang)), "faults_not_reached": int(kind in ("datafault", "ackfault") and not fired),
                         "payload_" + payload: 1, "outcomes_through_the_cli_exit_status_mapping": int(via_dispatch), **({"dest_%s_%s_%s" % (spec["dest"], payload, "accept-file" if spec["accept"] else "prompt"): int(so == "success" and ro == "success")} if spec.get("dest") else {}), **({"mode_" + spec["mode"]: int(so == "success" and ro == "success") if spec["mode"] != "verify-no" else int(so not in ("success", "pending"))} if spec.get("mode") else {}), "via_relay": int(any(l.tags.get("port") == 4001 for l in r.links)),
                         "steps": world.step, "bytes_payload": desc.get("size", 0)},
            "sets": {"clean_transfers_that_failed": [clean_failure] if clean_failure else [],
                     "hangs_observed": [hang] if hang else []},
            "sample": {"spec": spec, "payload": wit["payload"], "sender": so, "receiver": ro, "fault": fault, "fired": fired,
                       "stream_total": stream_total, "dst": sorted(dst)[:6], "liar": liar_log}}
