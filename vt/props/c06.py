"""C06 - Transit delivers exactly the records sent, or drops the connection."""
import hashlib
import io

from ..env import World
from ..sched import Scheduler
from ..transit_work import make_pair, hints_of, Result, link_of, FrameMITM, RecordingConsumer, QueueLikeConsumer, TransportLikeConsumer, Reader

PID = "C06"
LEVEL = "fault_enumeration"
RULE = ("real TransitSender/TransitReceiver negotiate over SimNet, then record sequences flow in both "
        "directions (counts 0-40, sizes 0,1,4,24,40,65535,65536,65537..300kB) under random TCP "
        "chunking down to single bytes; reader modes: receive_record early/late/interleaved, "
        "connectConsumer(expected), late consumer, writeToFile+hasher. A frame-aware MITM applies one "
        "operation (flip in length/nonce/tag/body, delete, swap, replay, truncate+close, inject forged, "
        "reflect from the opposite direction) at a swept frame index. Non-trivial = records flowed and "
        "(for tamper cases) the altered frame was fed to the receiver; distinct = (op, field, index, "
        "direction, reader mode, record sizes).")
ASSUMPTIONS = ["SimNet fidelity", "sizes <= 300 kB, <= 40 records per direction"]
FLOORS = {"quick": {"consumers_detached_by_the_application_while_paused": 5, "records_surfaced": 5000, "tampers_fed": 200, "clean_complete": 200, "idle_sessions": 50, "reads_issued_on_dropped_connection": 300, "reads_given_up": 150, "reads_reissued_from_errback": 150, "false_consumers": 40, "consumers_attached_after_close": 150},
          "thorough": {"consumers_detached_by_the_application_while_paused": 100, "records_surfaced": 140000, "tampers_fed": 2500, "clean_complete": 5000, "idle_sessions": 1300, "reads_issued_on_dropped_connection": 4000, "reads_given_up": 2500, "reads_reissued_from_errback": 2500, "false_consumers": 800, "consumers_attached_after_close": 2500}}
SIZES = [0, 1, 4, 24, 40, 100, 1000, 65535, 65536, 65537]
OPS = [("flip", "length"), ("flip", "nonce"), ("flip", "tag"), ("flip", "body"), ("delete", None),
       ("swap", None), ("replay", None), ("truncate", None), ("inject", None), ("reflect", None)]
MODES = ["early", "late", "interleaved", "consumer", "consumer-late", "file"]


def cases(tier, seed, prep=None):
    out = []
    q = tier == "quick"
    for i in range(300 if q else 8000):
        out.append({"kind": "clean", "seed": seed * 1000003 + 600000 + i})
    # a session that stays open for minutes: an idle stretch (61-900 virtual s) in the middle of the record flow
    for i in range(60 if q else 1500):
        out.append({"kind": "clean", "seed": seed * 1000003 + 690000 + i, "idle": [61, 75, 130, 900][i % 4], "idle_after": i % 3})
    k = 0
    reps = 2 if q else 12
    for rep in range(reps):
        for (op, field) in OPS:
            for idx in (range(0, 8) if q else range(0, 14)):
                for direction in (0, 1):
                    out.append({"kind": "tamper", "seed": seed * 1000003 + 650000 + k, "op": op, "field": field,
                                "index": idx, "dir": direction})
                    k += 1
    return out


def run_case(spec):
    world = World(spec["seed"])
    rng = world.work_rng
    r = world.reactor
    s, rc, key = make_pair(world)
    hs, hr = hints_of(s), hints_of(rc)
    rc.add_connection_hints(hs)
    s.add_connection_hints(hr)
    ds, dr = Result(s.connect()), Result(rc.connect())
    sch = Scheduler(world, None, strategy=rng.choice(["random", "pct", "netfirst"]), chunking="mixed",
                    tiny_budget=rng.choice([0, 40, 400]))
    sch.run(3000, until=lambda: ds.done and dr.done)
    if not (ds.done and dr.done and ds.value is not None and dr.value is not None):
        world.finish()
        return {"inconclusive": "transit negotiation did not complete: %r %r" % (ds.failure, dr.failure), "violations": []}
    conns = [ds.value, dr.value]      # 0 = sender side, 1 = receiver side
    link, end0 = link_of(world, conns[0])
    tamper = spec["kind"] == "tamper"
    n_min = (spec["index"] + 2) if tamper else 0
    plans = []
    for d in (0, 1):
        n = rng.randint(max(n_min if (tamper and spec["dir"] == d) else 0, 0), max(n_min, rng.choice([3, 8, 20, 40])))
        big = rng.random() < 0.25
        recs = []
        for i in range(n):
            size = rng.choice(SIZES if big else SIZES[:7])
            if big and rng.random() < 0.05:
                size = rng.randint(65538, 300000)
            recs.append(("%d:%d:" % (d, i)).encode()[:size] + rng.randbytes(max(0, size - len("%d:%d:" % (d, i)))))
        plans.append(recs)
    mitm = [None, None]
    for d in (0, 1):
        ops = {}
        if tamper and spec["dir"] == d:
            ops[spec["index"]] = {"op": spec["op"], "field": spec["field"], "which": rng.randint(0, 3)}
        mitm[d] = FrameMITM(world.rng, ops)
    mitm[0].other, mitm[1].other = mitm[1], mitm[0]
    # direction d: conns[d] -> conns[1-d]; conns[0] sits on link end `end0`
    link.dirs[end0].filter = mitm[0]
    link.dirs[1 - end0].filter = mitm[1]
    modes = [rng.choice(MODES), rng.choice(MODES)]     # modes[d]: how conns[1-d] reads direction d
    readers = [None, None]
    consumers = [None, None]
    consumer_d = [None, None]
    hashers = [None, None]
    sent = [0, 0]
    closed_by_app = [False, False]

    attached_alive = [False, False]
    viol_early = []
    zero_consumers = [0]
    partial = [None, None]
    limit = [1 << 30, 1 << 30]
    giveups = [rng.choice([0, 0, 1, 3]), rng.choice([0, 0, 1, 3])]

    def attach_consumer(d):
        rx = conns[1 - d]
        total = sum(len(x) for x in plans[d])
        t = rx.transport
        attached_alive[d] = bool(getattr(t, "connected", 0)) and rx.state == "records"
        if rng.random() < 0.3 and rx._consumer is None:
            # a zero-length body first (e.g. an empty file in a multi-part session): the consumer must be finished at
            # once with 0 bytes and must not be given any of the records that are already queued
            z = RecordingConsumer()
            zero_consumers[0] += 1
            try:
                dz = Result(rx.connectConsumer(z, expected=0))
                if not dz.done or dz.value != 0 or any(len(w_) for w_ in z.writes):
                    viol_early.append({"key": "C06/zero-length-consumer-got-data", "msg": "direction %d: connectConsumer(expected=0) -> done=%s result=%r writes=%r" % (
                        d, dz.done, dz.value if dz.done else None, [len(w_) for w_ in z.writes]), "witness": {"spec": spec, "mode": modes[d]}})
            except Exception as e:
                viol_early.append({"key": "C06/zero-length-consumer-raises/" + type(e).__name__, "msg": repr(e)[:200], "witness": {"spec": spec}})
        if modes[d] == "file":
            f = io.BytesIO()
            h = hashlib.sha256()
            hashers[d] = (f, h)
            consumers[d] = "file"
            dd = rx.writeToFile(f, total, hasher=h.update)
        else:
            x_ = rng.random()
            c = QueueLikeConsumer() if x_ < 0.2 else (TransportLikeConsumer(rng) if x_ < 0.5 else RecordingConsumer())
            consumers[d] = c
            if plans[d] and rng.random() < 0.4:
                # a multi-part session: the consumer takes the first k records, the rest is read with
                # receive_record() afterwards
                k = rng.randint(1, len(plans[d]))
                if sum(len(x) for x in plans[d][:k]) > 0:      # (expected=0 has its own documented behaviour)
                    total = sum(len(x) for x in plans[d][:k])
                    partial[d] = k
            dd = rx.connectConsumer(c, expected=total)
        consumer_d[d] = Result(dd) if dd is not None else None
    for d in (0, 1):
        readers[d] = Reader(conns[1 - d], retry_from_errback=rng.choice([0, 0, 1, 2]))
        if modes[d] == "early":
            for _ in plans[d]:
                readers[d].read()
        elif modes[d] in ("consumer", "file"):
            attach_consumer(d)

    detach_budget = [1, 1]
    detached = [False, False]

    class Drv:
        def actions(self_):
            acts = []
            for d in (0, 1):
                if sent[d] < min(len(plans[d]), limit[d]) and not closed_by_app[d]:
                    def snd(d=d):
                        conns[d].send_record(plans[d][sent[d]])
                        sent[d] += 1
                    acts.append((("app", "send", d), snd))
                if modes[d] == "interleaved" and len(readers[d].got) + readers[d].pending + len(readers[d].errors) < len(plans[d]):
                    acts.append((("app", "read", d), readers[d].read))
                if modes[d] in ("interleaved", "early") and giveups[d] > 0 and any(not o[1] for o in readers[d].open):
                    def gu(d=d):
                        giveups[d] -= 1
                        if readers[d].give_up_one() and modes[d] == "early":
                            readers[d].read()        # the application still wants every record: it asks again
                    acts.append((("app", "read-timeout", d), gu))
                if isinstance(consumers[d], TransportLikeConsumer) and consumers[d].paused:
                    acts.append((("app", "consumer-drained", d), consumers[d].drained))
                    if detach_budget[d] > 0 and modes[d] == "consumer" and partial[d] is None and conns[1 - d]._consumer is consumers[d] \
                            and len(consumers[d].writes) < len(plans[d]):
                        # an application that takes its consumer away itself (the download was cancelled, the rest is handled
                        # record by record) - while that consumer happens to have the connection paused
                        def det(d=d):
                            detach_budget[d] = 0
                            detached[d] = True
                            consumer_d[d] = None          # (the library forgets the Deferred of a consumer the application detached)
                            conns[1 - d].disconnectConsumer()
                        acts.append((("app", "manual-detach", d), det))
                if detached[d] and len(readers[d].got) + readers[d].pending + len(readers[d].errors) + len(consumers[d].writes) < len(plans[d]):
                    acts.append((("app", "read-after-detach", d), readers[d].read))
                if modes[d] == "consumer-late" and consumers[d] is None and sent[d] >= len(plans[d]) // 2:
                    acts.append((("app", "attach", d), lambda d=d: attach_consumer(d)))
            return acts
        drain_actions = actions
    sch.driver = Drv()
    idled = 0
    if spec.get("idle"):
        # first part of the flow, then nothing happens for a while, then the rest
        for d in (0, 1):
            limit[d] = min(len(plans[d]), spec["idle_after"] * max(1, len(plans[d]) // 3))
        sch.run(30000, until=lambda: sent[0] == limit[0] and sent[1] == limit[1])
        t0 = r.seconds()
        r.callLater(spec["idle"], lambda: None)
        sch.drain(spec["idle"] + 1.0, 40000)
        idled = int(r.seconds() - t0 >= spec["idle"])
        limit[0] = limit[1] = 1 << 30
    sch.run(30000, until=lambda: sent[0] == len(plans[0]) and sent[1] == len(plans[1]))
    sch.drain(30.0, 40000)
    for d in (0, 1):
        if modes[d] == "late":
            for _ in plans[d]:
                readers[d].read()
        if modes[d] == "consumer-late" and consumers[d] is None:
            attach_consumer(d)
    sch.drain(5.0, 3000)
    def _cw(d):
        w = consumers[d].writes
        if not sum(len(x) for x in plans[d]) and w[:1] == [b""]:
            w = w[1:]      # connectConsumer(expected=0) writes one empty string by design
        return w
    for d in (0, 1):
        # a consumer detaches once `expected` bytes were written: trailing empty records are then
        # queued for receive_record() again
        if isinstance(consumers[d], RecordingConsumer) and consumer_d[d] is not None and consumer_d[d].done:
            for _ in range(max(0, len(plans[d]) - len(readers[d].got) - len(_cw(d)))):
                readers[d].read()
    sch.drain(2.0, 500)
    # reads that are still unanswered although the connection they wait on is gone (before the application's own close())
    unanswered_on_dead = [readers[d].pending if not getattr(conns[1 - d].transport, "connected", 1) else 0 for d in (0, 1)]
    state_before_close = [c.state for c in conns]
    lose_before_close = [len(link.ends[end0 if i == 0 else 1 - end0].lose_calls) for i in (0, 1)]
    # end of stream: both applications close
    late_attach = []
    for d in (0, 1):
        closed_by_app[d] = True
        conns[d].close()
        if conns[d]._consumer is None and rng.random() < 0.4:
            # an application that (re)attaches a sized consumer although it has just closed: it must be told at once,
            # and the connection's own end must not trip over it
            try:
                la = conns[d].connectConsumer(RecordingConsumer(), expected=10)
                late_attach.append(Result(la))
            except Exception as e:
                viol_early.append({"key": "C06/consumer-after-close-raises/" + type(e).__name__, "msg": repr(e)[:200], "witness": {"spec": spec}})
    sch.drain(30.0, 5000)
    for la in late_attach:
        if not la.done:
            viol_early.append({"key": "C06/consumer-deferred-pending", "msg": "connectConsumer(expected=10) after close(): the Deferred neither fired nor failed", "witness": {"spec": spec}})
    from ..monitors import MON
    for e in list(world.escapes) + list(MON.errors):
        if "transit.py" in str(e) and "AlreadyCalledError" in str(e):     # (an exception out of dataReceived on a tampered frame is how the connection gets dropped)
            viol_early.append({"key": "C06/internal-error/" + str(e[0] if e in MON.errors else e[3]) + "/" + str(e[-1])[-40:].replace(" ", ""), "msg": str(e)[:300], "witness": {"spec": spec}})
            break
    world.finish()

    viol = list(viol_early)

    def surfaced(d):
        if consumers[d] == "file":
            return None
        if isinstance(consumers[d], RecordingConsumer):
            # records queued before a late attach are written individually too
            w = _cw(d)
            return w + readers[d].got
        return readers[d].got

    total_surfaced = 0
    tampers_fed = 0
    for d in (0, 1):
        m = mitm[d]
        altered = m.first_altered
        got = surfaced(d)
        rxi = 1 - d
        wit = {"spec": spec, "direction": d, "mode": modes[d], "sizes": [len(x) for x in plans[d]][:45],
               "mitm_log": m.log, "reader_errors": readers[d].errors[:5], "state_before_close": state_before_close,
               "rx_lose_calls_before_close": lose_before_close[rxi]}
        if got is None:
            f, h = hashers[d]
            data = f.getvalue()
            want = b"".join(plans[d])
            total_surfaced += len(plans[d]) if data == want else 0
            if not want.startswith(data):
                viol.append({"key": "C06/file/not-a-prefix", "msg": "writeToFile produced %d bytes that are not a prefix of the %d sent" % (len(data), len(want)), "witness": wit})
            if h.hexdigest() != hashlib.sha256(data).hexdigest():
                viol.append({"key": "C06/file/hasher-disagrees", "msg": "hasher saw other bytes than the file", "witness": wit})
            if altered is not None:
                good = sum(len(x) for x in plans[d][:altered])
                if len(data) > good:
                    viol.append({"key": "C06/file/data-after-tamper", "msg": "file has %d bytes, only %d precede the altered frame %d" % (len(data), good, altered), "witness": wit})
            elif data != want and altered is None and mitm[1 - d].first_altered is None:
                viol.append({"key": "C06/file/incomplete", "msg": "untampered: %d of %d bytes" % (len(data), len(want)), "witness": wit})
            if consumer_d[d] is not None and not consumer_d[d].done:
                viol.append({"key": "C06/consumer-deferred-pending", "msg": "writeToFile Deferred neither fired nor failed after the stream ended", "witness": wit})
        else:
            total_surfaced += len(got)
            for j, rec in enumerate(got):
                if j >= len(plans[d]) or rec != plans[d][j]:
                    cat = "never-sent"
                    if rec in plans[d]:
                        cat = "out-of-order-or-duplicate"
                    elif any(rec and (rec in x or x in rec) for x in plans[d] if x):
                        cat = "split-or-merged"
                    viol.append({"key": "C06/surfaced/" + cat, "msg": "direction %d mode %s: surfaced record #%d (%d bytes) is not sent record #%d" % (d, modes[d], j, len(rec), j),
                                 "witness": dict(wit, surfaced_sizes=[len(x) for x in got][:45])})
                    break
            if altered is not None and len(got) > altered:
                viol.append({"key": "C06/surfaced/at-or-after-tampered-frame", "msg": "direction %d: %d records surfaced but frame %d was altered (%s)" % (d, len(got), altered, m.log[:2]),
                             "witness": wit})
            if altered is None and mitm[1 - d].first_altered is None and got != plans[d]:
                viol.append({"key": "C06/incomplete-without-tamper", "msg": "direction %d mode %s: %d of %d records surfaced" % (d, modes[d], len(got), len(plans[d])),
                             "witness": dict(wit, surfaced_sizes=[len(x) for x in got][:45])})
            if unanswered_on_dead[d]:
                viol.append({"key": "C06/read-on-dropped-connection-never-fails", "msg": "direction %d mode %s: the connection has been dropped, %d receive_record() Deferreds are still waiting" % (d, modes[d], unanswered_on_dead[d]),
                             "witness": wit})
            if readers[d].pending:
                viol.append({"key": "C06/read-pending-after-close", "msg": "direction %d: %d receive_record() Deferreds never fired nor failed" % (d, readers[d].pending),
                             "witness": wit})
            if consumer_d[d] is not None and not consumer_d[d].done:
                viol.append({"key": "C06/consumer-deferred-pending", "msg": "connectConsumer Deferred neither fired nor failed", "witness": wit})
        if altered is not None:
            # was a complete differing frame actually fed to the receiver?  then it must have hung up
            # by itself (before the applications closed at the end)
            fed_complete = m.log and m.log[0][1] not in ("truncate then close",) and not (
                m.log[0][1].startswith("flip length"))
            if sent[d] > altered:
                tampers_fed += 1
                if fed_complete and m.log[0][1] != "delete" and lose_before_close[rxi] == 0 and state_before_close[rxi] != "hung up":
                    viol.append({"key": "C06/no-hangup-after-tamper/" + m.log[0][1].split(" ")[0],
                                 "msg": "direction %d: receiver was fed an altered frame (%s) but did not drop the connection (state %r)" % (d, m.log[0], state_before_close[rxi]),
                                 "witness": wit})
    clean = not tamper
    nontrivial = None
    if total_surfaced and (clean or tampers_fed):
        nontrivial = [spec["kind"], spec.get("op"), spec.get("field"), spec.get("index"), spec.get("dir"), modes,
                      [len(x) for x in plans[0]][:10], [len(x) for x in plans[1]][:10], sch.tiny_budget]
    return {"violations": viol, "nontrivial": nontrivial,
            "counters": {"records_surfaced": total_surfaced, "tampers_fed": tampers_fed,
                         "clean_complete": int(clean and not viol), "idle_sessions": idled, "reads_given_up": readers[0].given_up + readers[1].given_up, "consumers_attached_after_close": len(late_attach), "zero_length_consumers": zero_consumers[0],
                         "reads_reissued_from_errback": readers[0].retried + readers[1].retried, "false_consumers": sum(isinstance(c, QueueLikeConsumer) for c in consumers), "consumers_detached_by_the_application_while_paused": int(detached[0]) + int(detached[1]), "consumer_pauses_in_write": sum(c.pauses for c in consumers if isinstance(c, TransportLikeConsumer)), "reads_issued_on_dropped_connection": sum(len(plans[d]) for d in (0, 1) if modes[d] == "late" and not getattr(conns[1 - d].transport, "connected", 1)) if tamper else 0, "partial_consumers": sum(1 for x in partial if x is not None), "records_sent": sent[0] + sent[1],
                         "bytes": sum(len(x) for p in plans for x in p), "steps": world.step,
                         **{"mode_" + m: 1 for m in modes}},
            "sample": {"spec": spec, "modes": modes, "sizes0": [len(x) for x in plans[0]][:12], "sizes1": [len(x) for x in plans[1]][:12],
                       "mitm": [m.log for m in mitm], "reader_errors": [rd.errors[:3] for rd in readers],
                       "state_before_close": state_before_close, "surfaced": [len(surfaced(d)) if surfaced(d) is not None else "file" for d in (0, 1)]}}
