"""C03 - mailbox messages arrive in order, exactly once, unmodified (DESIGN.md 3/C03)."""
import itertools
import random

from ..mailbox_work import (build_case, prefix_violation, trace_digest, events_view, b2s)
from ..monitors import MON

PID = "C03"
LEVEL = "exploration"
RULE = ("real client pair + real mailbox server on SimNet; server `message` responses pooled and "
        "released in scheduler-chosen order with duplicates; client links cut at random/swept steps "
        "with real ClientService reconnects in virtual time; sends gated at any/code/key/verified; a share "
        "of the cases also calls dilate() on both wormholes so that dilate-N records travel (reordered, "
        "duplicated) among the numbered application phases. "
        "A case is non-trivial when each side received >=1 message and at least one reorder, "
        "duplicate or effective drop happened; distinct = distinct scheduler decision traces.")
ASSUMPTIONS = ["SimNet mirrors twisted tcp transport semantics (vt selftest)",
               "payloads carry a unique id so a delivery identifies its send"]
FLOORS = {"quick": {"malformed_set_code_first_KeyFormatError": 25, "sends_before_a_malformed_set_code": 4, "delivered": 200, "adv_out_of_order": 50, "adv_dups": 20, "drops": 20, "dilate_records_rx": 150, "gets_given_up": 60},
          "thorough": {"malformed_set_code_first_KeyFormatError": 500, "sends_before_a_malformed_set_code": 60, "delivered": 2000, "adv_out_of_order": 500, "adv_dups": 200, "drops": 200, "dilate_records_rx": 5000, "gets_given_up": 2000}}


def cases(tier, seed, prep=None):
    out = []
    n_random = 360 if tier == "quick" else 12000
    for i in range(n_random):
        out.append({"kind": "random", "seed": seed * 1000003 + i})
    # the same exchange on wormholes that are also being dilated: dilate-N control records share the
    # mailbox and the reordering server with the application's numbered phases
    for i in range(80 if tier == "quick" else 2500):
        out.append({"kind": "random", "seed": seed * 1000003 + 40000 + i, "dilate": True, "min_msgs": 2, "ndrops": [0, 0, 1]})
    # an application that gives up waiting now and then (get_message().addTimeout(...), i.e. Deferred.cancel()) and asks again later
    for i in range(80 if tier == "quick" else 2500):
        who = "ab"[i % 2]
        out.append({"kind": "random", "seed": seed * 1000003 + 60000 + i, "min_msgs": 3, "ndrops": [0, 0, 1],
                    "cfg_over": {"api_" + who: "deferred", "get_" + who: "lazy", "cancel_gets_" + who: 1 + i % 3}})
    # ... and one that cancels a later outstanding read from inside the callback of an earlier one
    for i in range(60 if tier == "quick" else 2000):
        who = "ab"[i % 2]
        out.append({"kind": "random", "seed": seed * 1000003 + 62000 + i, "min_msgs": 4, "ndrops": [0, 0, 1], "cancel_in_callback": [who.upper(), 1 + i % 4],
                    "cfg_over": {"api_" + who: "deferred", "get_" + who: "lazy"}})
    # an application that lets many messages pile up unread (70-100) and only then starts reading
    for i in range(10 if tier == "quick" else 300):
        who = "ab"[i % 2]
        out.append({"kind": "random", "seed": seed * 1000003 + 65000 + i, "min_msgs": 70, "max_msgs": 100, "max_size": 30, "ndrops": [0, 0, 1],
                    "cfg_over": {"api_" + who: "deferred", "get_" + who: "never"}, "backlog": who.upper()})
    # an application whose first set_code() is malformed (KeyFormatError, caught) and which then sets a good one - with
    # messages already handed to send_message() before either
    for i in range(60 if tier == "quick" else 2000):
        out.append({"kind": "random", "seed": seed * 1000003 + 67000 + i, "min_msgs": 3, "ndrops": [0, 0, 1],
                    "cfg_over": {"b_code": "set", "bad_first_b": ["7-purple sausages", " 7-x", "7-x y", "", "x-y", "7 -a"][i % 6]}})
    bases = range(3) if tier == "quick" else range(24)
    stride = 4 if tier == "quick" else 1
    for b in bases:
        for who in ("A", "B"):
            for k in range(0, 260, stride):
                out.append({"kind": "sweep", "seed": seed * 7919 + b, "drop_at": k, "who": who})
    if tier == "thorough":
        for k, perm in enumerate(itertools.permutations(range(6))):
            out.append({"kind": "perm", "seed": seed * 31 + (k % 5), "perm": list(perm)})
    else:
        rng = random.Random(seed)
        perms = list(itertools.permutations(range(5)))
        for perm in rng.sample(perms, 40):
            out.append({"kind": "perm", "seed": seed * 31, "perm": list(perm)})
    return out


def run_case(spec):
    world, drv, sch, cfg = build_case(spec, max_msgs=spec.get("max_msgs", 12), max_size=spec.get("max_size", 2000))
    dilated = [0]
    if spec.get("cancel_in_callback"):
        drv.app(spec["cancel_in_callback"][0]).cancel_in_callback = spec["cancel_in_callback"][1]
    if spec.get("dilate"):
        rng = world.work_rng
        for app in (drv.a, drv.b):
            def go(app=app):
                try:
                    app.w.dilate()
                    dilated[0] += 1
                except Exception as e:
                    world.escapes.append((world.step, "app", "dilate()", type(e).__name__, repr(e)[:200], ""))
            k = rng.choice([0, 0, rng.randint(1, 60), rng.randint(60, 200)])
            if k == 0:
                go()
            else:
                sch.faults.append((k, go, "dilate %s" % app.name))
        sch.faults.sort(key=lambda f: f[0])
    backlog = 0
    if spec.get("backlog"):
        late = drv.app(spec["backlog"])                       # reads nothing until everything has been sent
        other = drv.app("B" if spec["backlog"] == "A" else "A")
        arrived = lambda: drv.all_sent() and other.msgs == late.sent
        end = sch.run(8000, until=arrived)
        sch.drain(120.0, 60000, until=arrived)
        sch.drain(10.0, 3000)
        backlog = len(getattr(getattr(late.w, "_received_observer", None), "_results", ()))
        for _ in range(len(other.sent) + 2):
            late.get_one_message()
    end = sch.run(1500, until=drv.all_delivered)
    sch.drain(120.0, 6000, until=drv.all_delivered)
    drv.a.close()
    drv.b.close()
    sch.drain(120.0, 4000, until=lambda: drv.a.closed and drv.b.closed)
    world.finish()
    viol = []
    for (rx, tx, name) in ((drv.a, drv.b, "A<-B"), (drv.b, drv.a, "B<-A")):
        pv = prefix_violation(rx.msgs, tx.sent, own=rx.sent)
        if pv:
            viol.append({"key": "C03/prefix/" + pv[0],
                         "msg": "%s: %s" % (name, pv[1]),
                         "witness": {"delivered": [b2s(m) for m in rx.msgs], "sent": [b2s(m) for m in tx.sent],
                                     "cfg": {k: v for k, v in cfg.items() if not k.startswith("plan")},
                                     "events": events_view(rx)}})
    adv = world.adversary
    delivered = len(drv.a.msgs) + len(drv.b.msgs)
    stress = adv.out_of_order + adv.dups + drv.drops_done
    nontrivial = None
    if drv.a.msgs and drv.b.msgs and stress:
        nontrivial = trace_digest(sch)
    elif spec["kind"] == "perm" and drv.b.msgs and adv.out_of_order:
        nontrivial = trace_digest(sch)
    res = {
        "violations": viol,
        "nontrivial": nontrivial,
        "counters": {"delivered": delivered, "adv_out_of_order": adv.out_of_order, "adv_dups": adv.dups,
                     "drops": drv.drops_done, "drops_skipped": drv.drops_skipped, **{"drop_" + k: v for k, v in drv.drop_kinds.items()},
                     "complete": int(drv.all_delivered()), "steps": world.step,
                     "kind_" + spec["kind"]: 1, "dilate_calls": dilated[0], "largest_unread_backlog": backlog, "gets_given_up": getattr(drv.a, "cancelled_gets", 0) + getattr(drv.b, "cancelled_gets", 0),
                     "gets_cancelled_from_inside_a_callback": getattr(drv.a, "cancelled_in_callback", 0) + getattr(drv.b, "cancelled_in_callback", 0),
                     "dilate_records_rx": sum(1 for app in (drv.a, drv.b) for (_, m) in app.inbound
                                              if m.get("type") == "message" and str(m.get("phase", "")).startswith("dilate-")),
                     "notrans_seen": len(MON.notrans), "log_errors_seen": len(MON.errors),
                     "malformed_set_code_first_" + str(drv.bad_first_outcome): int(bool(cfg.get("bad_first_b"))),
                     "sends_before_a_malformed_set_code": len(drv.b.sent_before_code) if cfg.get("bad_first_b") and hasattr(drv.b, "sent_before_code") else 0},
        "sample": {"spec": spec, "cfg": {k: v for k, v in cfg.items() if not k.startswith("plan")},
                   "sent_A": len(drv.a.sent), "sent_B": len(drv.b.sent),
                   "A_events": [e[1] for e in drv.a.ev], "B_events": [e[1] for e in drv.b.ev],
                   "first_deliveries_to_B": [b2s(m) for m in drv.b.msgs[:3]],
                   "adversary": {"out_of_order": adv.out_of_order, "dups": adv.dups},
                   "drops": drv.drops_done, "chaos_end": end, "steps": world.step,
                   "trace_head": [list(t) for t in sch.trace[:40]]},
    }
    return res
