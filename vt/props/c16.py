"""C16 - the Leader replaces a silent peer connection and never drops a responsive one."""
from ..env import World
from ..sched import Scheduler
from ..simnet import unwrap
from ..dilation_work import DilatedPair, RecFactory
from ..mailbox_work import trace_digest
from ..monitors import MON, state_of

from wormhole._dilation import manager as manager_mod
from wormhole._dilation.roles import LEADER, FOLLOWER

PID = "C16"
LEVEL = "exploration"
RULE = ("two real dilated wormholes with dilate(ping_interval=x), x in 0.5..60 s; the selected link gets a "
        "controlled round-trip latency d<x per ping (many values incl. just below x), or goes silent "
        "(blackholed, nobody notified) at a random instant, or slow-then-silent; in a share of the responsive "
        "and silent cases the Leader's application streams 3-40 MB through a subchannel the whole time (L2 "
        "transport full, Outbound paused when pings are due); random link cuts and "
        "close() so that monitoring must stop and resume on the next connection. Events are taken at the "
        "Manager's send_ping/handle_pong/_signal_reconnect/connector_connection_made/lost boundary with "
        "virtual timestamps. Non-trivial = at least 3 answered pings (responsive) or a blackhole that "
        "took effect on a CONNECTED pair; distinct = (x, behaviour, t0, latencies) tuples.")
ASSUMPTIONS = ["Noise stand-in", "virtual time: all deadlines are decided on the simulated clock"]
FLOORS = {"quick": {"pongs": 3000, "silent_cases_dropped": 60, "responsive_intervals": 3000, "stops_with_lingering_connection": 6, "neighbour_connection_losses": 200, "silent_with_a_little_unsent_data": 10},
          "thorough": {"pongs": 100000, "silent_cases_dropped": 2500, "responsive_intervals": 110000, "stops_with_lingering_connection": 300, "neighbour_connection_losses": 5000, "silent_with_a_little_unsent_data": 300}}

class Bulk:
    """push producer that keeps a subchannel's sender saturated (writes whenever it is allowed to)"""

    def __init__(self, transport, total, chunk=40000):
        self.t, self.left, self.chunk, self.paused, self.written = transport, total, chunk, False, 0
        transport.registerProducer(self, True)
        self.resumeProducing()

    def pauseProducing(self):
        self.paused = True

    def stopProducing(self):
        self.paused = True
        self.left = 0

    def resumeProducing(self):
        self.paused = False
        while not self.paused and self.left > 0:
            n = min(self.chunk, self.left)
            self.left -= n
            self.written += n
            try:
                self.t.write(b"b" * n)
            except Exception:
                self.left = 0
                return
        if self.left <= 0:
            try:
                self.t.unregisterProducer()
            except Exception:
                pass


_events = []      # (time, manager, what, extra)
_world = [None]


def _install():
    if getattr(_install, "done", False):
        return
    _install.done = True
    M = manager_mod.Manager

    def wrap(name, what, extra=None):
        orig = getattr(M, name)

        def f(self, *a, **kw):
            w = _world[0]
            if w is not None:
                _events.append((w.reactor.seconds(), self, what, extra(self, *a, **kw) if extra else None))
            return orig(self, *a, **kw)
        setattr(M, name, f)
    wrap("send_ping", "ping", lambda self, ping_id, on_pong=None: ping_id)
    wrap("handle_pong", "pong", lambda self, ping_id: ping_id)
    wrap("_signal_reconnect", "drop")
    wrap("connector_connection_made", "made")
    wrap("connector_connection_lost", "lost")
    # `stop` is an automat input (a descriptor): wrap what it hands out per instance
    stop_desc = M.__dict__["stop"]

    class StopRecorder:
        def __get__(self_, oself, typ=None):
            if oself is None:
                return stop_desc.__get__(oself, typ)
            bound = stop_desc.__get__(oself, typ)

            def f(*a, **kw):
                w = _world[0]
                if w is not None:
                    _events.append((w.reactor.seconds(), oself, "stop", None))
                return bound(*a, **kw)
            return f
    M.stop = StopRecorder()


def cases(tier, seed, prep=None):
    n = 300 if tier == "quick" else 9000
    kinds = ["responsive", "responsive", "silent", "silent", "slow-then-silent", "cut-then-responsive", "close",
             "responsive", "silent", "silent-again", "responsive-paused"]
    out = [{"seed": seed * 1000003 + 1600000 + i, "kind": kinds[i % len(kinds)], "bulk": i % len(kinds) in (7, 8)} for i in range(n)]
    for i in range(24 if tier == "quick" else 600):
        out.append({"seed": seed * 1000003 + 1650000 + i, "kind": "cut-then-responsive", "nflaps": [5, 8, 12, 20][i % 4]})
    # dilation is stopped while the connection cannot go away at once (unsent data, a peer that is not reading):
    # monitoring must stop with the stop, not with the eventual loss of the connection
    for i in range(24 if tier == "quick" else 600):
        out.append({"seed": seed * 1000003 + 1660000 + i, "kind": "close-lingering", "bulk": True})
    # the Leader's host is suspended for a while (or its clock steps forward, or the reactor is blocked): when it wakes
    # up its interval timer is served late; the peer still answers every ping at once and must not be dropped
    for i in range(30 if tier == "quick" else 800):
        out.append({"seed": seed * 1000003 + 1670000 + i, "kind": "responsive-suspend", "sleep": [0.6, 0.95, 1.5, 3.0, 10.0][i % 5], "nsleeps": 1 + i % 3})
    # the peer goes silent while the Leader's application has written just a little more than the kernel takes: a few KiB
    # sit unsent in the transport, well below the mark at which Outbound would be paused
    for i in range(24 if tier == "quick" else 700):
        out.append({"seed": seed * 1000003 + 1690000 + i, "kind": "silent", "trickle": True})
    # a second dilated wormhole pair in the same process (two transfers at once) whose connection keeps breaking:
    # the pair under test is healthy and answers every ping, and must be left alone
    for i in range(30 if tier == "quick" else 800):
        out.append({"seed": seed * 1000003 + 1680000 + i, "kind": "responsive", "neighbour": True})
    return out


def run_case(spec):
    _install()
    del _events[:]
    world = World(spec["seed"])
    _world[0] = world
    rng = world.work_rng
    r = world.reactor
    x = rng.choice([0.5, 1.0, 2.0, 5.0, 13.0, 30.0, 60.0])
    kind = spec["kind"]
    dp = DilatedPair(world, ping_interval=x)
    fa = RecFactory(dp, "A.accept")
    dp.dw["A"].listener_for("p").listen(fa)
    sch = Scheduler(world, None, strategy="random", chunking="whole")
    gate = {"until": -1.0, "link": None}
    lat = {"mode": "fixed", "d": rng.choice([0.0, 0.1, 0.5, 0.9, 0.99]) * x}
    lat_log = []

    def on_ping_gate():
        # called from the hook: a leader ping was just sent -> hold the selected link for d
        link = dp.selected_link()
        if link is None:
            return
        d = lat["d"] if lat["mode"] == "fixed" else rng.random() * 0.99 * x
        lat_log.append(round(d, 4))
        gate["link"] = link
        gate["until"] = r.seconds() + d
        r.callLater(d, lambda: None)
    seen_pings = [0]
    paused_pings = [0]

    own = []

    def hook():
        if not own:
            own.extend([dp.manager("A"), dp.manager("B")])
        n = len([1 for e in _events if e[2] == "ping" and any(e[1] is m_ for m_ in own)])
        if n > seen_pings[0]:
            seen_pings[0] = n
            m = _events[-1][1]
            if getattr(getattr(m, "_outbound", None), "_paused", False):
                paused_pings[0] += 1
            on_ping_gate()
        if quota["on"]:
            tot = sum(e.rx_total for l in dp.l2_links() for e in l.ends if dp.party_of(unwrap(e.protocol)) != dp.leader())
            if tot != quota["seen"]:
                quota["seen"] = tot
                quota["n"] -= 1
    sch.hook = hook

    quota = {"on": False, "n": 0, "seen": 0, "dt": x / 20.0}

    def grant():
        quota["n"] = 1
        if quota["on"]:
            r.callLater(quota["dt"], grant)

    def filt(a):
        if a[0] in ("data", "flush", "fin"):
            t = a[2][2]
            if gate["link"] is not None and r.seconds() < gate["until"] and t.link is gate["link"]:
                return False
            # bandwidth limit (bulk cases): one delivery per dt of virtual time in the direction of the bulk data
            # (Leader -> Follower); the return path stays free, so a pong is never stuck behind this throttle
            if quota["on"] and a[0] == "data" and quota["n"] <= 0 and t.link in dp.l2_links() and \
                    dp.party_of(unwrap(t.protocol)) != dp.leader():
                return False
        return True
    sch.filter = filt
    if rng.random() < 0.5:
        lat["mode"] = "random"
    if spec.get("bulk"):
        # queueing behind the streamed data adds up to ~3 delivery slots (0.15 x) to every round trip, so
        # the injected latency stays well below the interval: the peer remains responsive by construction
        lat["mode"] = "fixed"
        lat["d"] = rng.choice([0.0, 0.1, 0.4]) * x
    dp2 = None
    nb = {"cuts": 0}
    if spec.get("neighbour"):
        dp2 = DilatedPair(world, ping_interval=x, code="77-neigh-bour")
    sch.run(3000 if dp2 is None else 8000, until=lambda: dp.both_connected() and (dp2 is None or dp2.both_connected()))
    if not dp.both_connected():
        world.finish()
        _world[0] = None
        return {"inconclusive": "dilation did not connect", "violations": []}
    if dp2 is not None:
        def flap():
            if nb.get("off"):
                return
            l2_ = dp2.selected_link()
            if l2_ is not None:
                r.cut(l2_)
                nb["cuts"] += 1
            r.callLater(rng.choice([0.3, 0.7, 1.1, 2.3]) * x * (0.5 + rng.random()), flap)
        r.callLater(rng.random() * x, flap)
    lead = dp.leader()
    fol = "B" if lead == "A" else "A"
    lm, fm = dp.manager(lead), dp.manager(fol)
    trickle = {"sc": None, "written": 0, "on": False, "unsent_seen": 0}
    if spec.get("trickle"):
        r.blackhole_sndbuf = rng.choice([2 ** 14, 2 ** 16, 2 ** 18])
        flt = RecFactory(dp, "%s.accept4" % fol)
        dp.dw[fol].listener_for("trickle").listen(flt)
        gott = []
        dp.dw[lead].connector_for("trickle").connect(RecFactory(dp, "%s.open4" % lead)).addCallback(gott.append)
        sch.run(400, until=lambda: bool(gott))
        if gott:
            trickle["sc"] = gott[0].transport
        base_hook = sch.hook

        def trickle_hook():
            base_hook()
            if trickle["on"] and trickle["sc"] is not None and trickle["written"] < r.blackhole_sndbuf + 40000 and not trickle["unsent_seen"] \
                    and dp.selected_link() is silent_link:
                c_ = getattr(lm, "_connection", None)
                tr_ = getattr(c_, "transport", None)
                unsent = len(getattr(tr_, "outbuf", b"")) if tr_ is not None else -1
                if unsent == 0:
                    try:
                        n_ = rng.choice([1000, 4000, 16000])
                        trickle["sc"].write(rng.randbytes(n_))
                        trickle["written"] += n_
                    except Exception:
                        trickle["on"] = False
                elif unsent > 0:
                    # (only what stays behind after the transport had its turns to hand it to the kernel)
                    if trickle.get("last") == unsent:
                        trickle["same"] = trickle.get("same", 0) + 1
                    else:
                        trickle["last"], trickle["same"] = unsent, 0
                    if trickle["same"] >= 25:
                        trickle["unsent_seen"] = unsent
        sch.hook = trickle_hook
    bulk = None
    if spec.get("bulk"):
        r.blackhole_sndbuf = 2 ** 18     # a silent peer acknowledges nothing: the send buffer fills and stays full
        # the Leader's application streams data the whole time, so its L2 transport is usually full and
        # Outbound paused when a ping is due; pings and pongs queue behind that data
        fl = RecFactory(dp, "%s.accept2" % fol)
        dp.dw[fol].listener_for("bulk").listen(fl)
        got = []
        dp.dw[lead].connector_for("bulk").connect(RecFactory(dp, "%s.open" % lead)).addCallback(got.append)
        sch.run(400, until=lambda: bool(got))
        if got:
            quota["on"] = True
            grant()
            bulk = Bulk(got[0].transport, rng.choice([3, 10, 40]) * 1000000)
    t_conn = r.seconds()
    horizon = t_conn + x * rng.choice([8, 20, 60])
    t0 = None
    silent_link = None
    cuts = 0

    def run_until(t_end):
        # advance through virtual time up to t_end
        guard = 0
        while r.seconds() < t_end and guard < 200000:
            guard += 1
            nt = r.next_timer()
            if not sch.enabled() and not r.due() and (nt is None or nt > t_end):
                r.rightNow = t_end
                break
            if not sch.step():
                r.rightNow = t_end
                break
    paused_app = None
    lingering = {}
    suspended = [0]
    if kind == "responsive-paused":
        # the Leader's own application stops reading one of its subchannels for a while (back-pressure towards
        # the peer): the Follower keeps answering every ping, the Leader just does not read the answers
        kind = "responsive"
        fl2 = RecFactory(dp, "%s.accept3" % fol)
        dp.dw[fol].listener_for("quiet").listen(fl2)
        got2 = []
        dp.dw[lead].connector_for("quiet").connect(RecFactory(dp, "%s.open3" % lead)).addCallback(got2.append)
        sch.run(400, until=lambda: bool(got2))
        if got2:
            paused_app = got2[0]
    again = None
    if kind == "silent-again":
        # the generation that replaced a silent connection goes silent too (1-3 times in a row)
        kind = "silent"
        again = rng.choice([1, 1, 2, 3])
    if kind in ("silent", "slow-then-silent"):
        t0 = t_conn + rng.random() * x * rng.choice([1, 3, 7])
        if kind == "slow-then-silent":
            lat["mode"] = "fixed"
            lat["d"] = 0.97 * x
        run_until(t0)
        silent_link = dp.selected_link()
        if silent_link is not None and dp.both_connected():
            r.blackhole(silent_link)
            trickle["on"] = True
        else:
            silent_link = None
        run_until(t0 + 6 * x + 5)
        episodes = []
        for _ in range(again or 0):
            if not dp.both_connected():
                break
            t1 = r.seconds() + rng.random() * 3 * x
            run_until(t1)
            link2 = dp.selected_link()
            if link2 is None or not dp.both_connected():
                break
            n_drops = len([1 for (t, m, w, e) in _events if m is lm and w == "drop"])
            last_pong = max([t for (t, m, w, e) in _events if m is lm and w == "pong"] + [max([t for (t, m, w, e) in _events if m is lm and w == "made"] or [t1])])
            r.blackhole(link2)
            run_until(t1 + 6 * x + 5)
            d2 = [t for (t, m, w, e) in _events if m is lm and w == "drop"][n_drops:]
            episodes.append((t1, last_pong, d2[0] if d2 else None, dp.both_connected()))
    elif kind == "cut-then-responsive":
        # 1..12 generations are lost in a row (each some time after it came up, possibly before its
        # first ping round trip), then the replacement is left alone and must be monitored and kept
        for i in range(spec.get("nflaps") or rng.choice([1, 1, 2, 3])):
            run_until(r.seconds() + rng.random() * rng.choice([0.3, 2, 5]) * x)
            link = dp.selected_link()
            if link is None:
                ends = dp.selected_ends("A") + dp.selected_ends("B")
                link = ends[0].link if ends else None
            if link is not None:
                r.cut(link)
                cuts += 1
            t_lim = r.seconds() + 40 * x + 60
            while not dp.both_connected() and r.seconds() < t_lim:
                run_until(r.seconds() + 0.25 * x)
        horizon = r.seconds() + x * rng.choice([8, 20])
        run_until(horizon)
    elif kind == "responsive-suspend":
        kind = "responsive"
        lat["mode"] = "fixed"
        lat["d"] = 0.0
        for _ in range(spec["nsleeps"]):
            run_until(r.seconds() + rng.random() * 3 * x)
            # wait for a moment at which nothing is in flight: right after a pong has been read
            n0 = len([1 for e in _events if e[1] is lm and e[2] == "pong"])
            t_lim = r.seconds() + 4 * x
            while len([1 for e in _events if e[1] is lm and e[2] == "pong"]) == n0 and r.seconds() < t_lim and dp.both_connected():
                if not sch.step():
                    break
            if not dp.both_connected():
                break
            suspended[0] += 1
            r.rightNow += spec["sleep"] * x          # nothing runs meanwhile; every timer that fell due is served late
        run_until(r.seconds() + 6 * x)
    elif kind == "close-lingering":
        lingering = {"unsent": 0, "stopped_at": None}
        run_until(t_conn + rng.random() * 3 * x)
        if bulk is not None and fl.built:
            fl.built[0][1].transport.pauseProducing()          # the Follower's application stops reading
            run_until(r.seconds() + 0.3 * x)                     # ... and everything towards it fills up
            c_ = getattr(lm, "_connection", None)
            lingering["unsent"] = len(getattr(getattr(c_, "transport", None), "outbuf", b""))
            lingering["stopped_at"] = r.seconds()
            dp.apps[lead].close()
            run_until(r.seconds() + rng.choice([3, 5, 9]) * x)
            lingering["state_after"] = dp.mstate(lead)
            fl.built[0][1].transport.resumeProducing()
        # (a Follower that does not read does not answer pings either: no "responsive peer" clause for this kind)
    elif kind == "close":
        run_until(t_conn + rng.random() * 4 * x)
        dp.a.close()
        dp.b.close()
        run_until(horizon)
    elif paused_app is not None:
        run_until(t_conn + rng.random() * 3 * x)
        paused_app.transport.pauseProducing()
        t_pause = r.seconds()
        run_until(t_pause + rng.choice([0.5, 1.5, 2.5, 4, 7]) * x)
        paused_for = r.seconds() - t_pause
        paused_app.transport.resumeProducing()
        run_until(max(horizon, r.seconds() + 4 * x))
    else:
        run_until(horizon)
    t_end = r.seconds()
    # ---------------- oracle
    viol = []
    ev_l = [(t, w, e) for (t, m, w, e) in _events if m is lm]
    ev_f = [(t, w, e) for (t, m, w, e) in _events if m is fm]

    def wit():
        return {"spec": spec, "x": x, "kind": kind, "leader": lead, "t_conn": t_conn, "t0": t0, "latency_mode": lat["mode"], "latencies": lat_log[:12],
                "leader_events": [(round(t, 3), w) for (t, w, e) in ev_l][:60], "follower_events": [(round(t, 3), w) for (t, w, e) in ev_f][:20],
                "states": {n: dp.mstate(n) for n in "AB"}, "t_end": t_end}
    pongs = [(t, e) for (t, w, e) in ev_l if w == "pong"]
    drops = [t for (t, w, e) in ev_l if w == "drop"]
    mades = [t for (t, w, e) in ev_l if w == "made"]
    losts = [t for (t, w, e) in ev_l if w == "lost"]
    if any(w in ("ping", "drop") for (t, w, e) in ev_f):
        viol.append({"key": "C16/follower-pings-or-drops", "msg": "the follower sent a ping or signalled a reconnect", "witness": wit()})
    # monitoring only while a connection exists
    connected = False
    last_lost = None
    for (t, w, e) in ev_l:
        if w == "made":
            connected = True
        elif w == "lost":
            connected = False
            last_lost = t
        elif w in ("ping", "drop") and not connected:
            viol.append({"key": "C16/%s-without-connection" % w, "msg": "leader %s at t=%.3f but the connection was lost at t=%s and none has been made since" % (w, t, last_lost),
                         "witness": wit()})
            break
    # ... and only until dilation is stopped
    for m_, nm in ((lm, "leader"), (fm, "follower")):
        ev_m = [(t, w) for (t, m, w, e) in _events if m is m_]
        if ("stop" in [w for (t, w) in ev_m]):
            i_stop = [w for (t, w) in ev_m].index("stop")
            late = [(t, w) for (t, w) in ev_m[i_stop + 1:] if w in ("ping", "drop")]
            if late:
                viol.append({"key": "C16/%s-after-stop" % late[0][1], "msg": "%s: dilation stopped at t=%.3f, %s at t=%.3f (x=%s, Manager now %s)" % (
                    nm, ev_m[i_stop][0], late[0][1], late[0][0], x, dp.mstate(lead if m_ is lm else fol)), "witness": wit()})
    silent_dropped = 0
    responsive_intervals = 0
    if kind in ("silent", "slow-then-silent") and silent_link is not None:
        answered_before = [t for (t, e) in pongs if t <= t0 + 1e-9]
        ref = max(answered_before) if answered_before else t_conn
        after = [t for t in drops if t > t0 - 1e-9]
        # pongs of pings sent before t0 may still be in flight only if they were delivered before the blackhole: none arrive after t0
        late_pongs = [t for (t, e) in pongs if t > t0 + 1e-9 and t < (after[0] if after else t_end)]
        if late_pongs:
            ref = max(ref, max(late_pongs))
        if not after:
            viol.append({"key": "C16/silent-peer-never-dropped", "msg": "link blackholed at t=%.3f (x=%s); %.1f intervals later the leader has not dropped it" % (t0, x, (t_end - t0) / x),
                         "witness": wit()})
        else:
            silent_dropped = 1
            if after[0] >= ref + 3 * x - 1e-9:
                viol.append({"key": "C16/silent-peer-dropped-too-late", "msg": "last answered ping's pong at t=%.3f, dropped at t=%.3f = %.2f intervals later (x=%s)" % (ref, after[0], (after[0] - ref) / x, x),
                             "witness": wit()})
            # a new generation starts: the link is abandoned and both sides end up connected again
            if not dp.both_connected():
                viol.append({"key": "C16/no-new-generation-after-drop/%s-%s" % (dp.mstate(lead), dp.mstate(fol)),
                             "msg": "after dropping the silent link at t=%.3f the managers are %s/%s at t=%.3f" % (after[0], dp.mstate(lead), dp.mstate(fol), t_end),
                             "witness": wit()})
            elif "made" not in [w for (t, w, e) in ev_l[[i for i, (t, w, e) in enumerate(ev_l) if w == "drop" and t == after[0]][0]:]]:
                viol.append({"key": "C16/no-new-connection-after-drop", "msg": "", "witness": wit()})
    # measured round trips (ping id -> pong), as a check of the harness' own premise
    sent_at = {}
    rtts = []
    for (t, w, e) in ev_l:
        if w == "ping":
            sent_at[e] = t
        elif w == "pong" and e in sent_at:
            rtts.append(t - sent_at[e])
    slow_rtt = [d_ for d_ in rtts if d_ >= x - 1e-9]
    for (t1, last_pong, dropped_at, reconnected) in (episodes if kind == "silent" and again else []):
        if dropped_at is None:
            viol.append({"key": "C16/silent-peer-never-dropped/again", "msg": "the replacement connection was blackholed at t=%.3f (x=%s) and never dropped" % (t1, x), "witness": wit()})
        else:
            ref2 = max(last_pong, max([t for (t, e) in pongs if t <= dropped_at] or [last_pong]))
            if dropped_at >= ref2 + 3 * x - 1e-9:
                viol.append({"key": "C16/silent-peer-dropped-too-late/again", "msg": "replacement connection: last sign of life t=%.3f, dropped at t=%.3f (x=%s)" % (ref2, dropped_at, x), "witness": wit()})
            if not reconnected:
                viol.append({"key": "C16/no-new-generation-after-drop/again", "msg": "the replacement connection was dropped at t=%.3f but the pair is %s/%s at t=%.3f" % (dropped_at, dp.mstate(lead), dp.mstate(fol), t_end), "witness": wit()})
    if kind in ("responsive", "cut-then-responsive", "close") and slow_rtt and paused_app is None:
        return_inconclusive = "harness premise broken: a pong took %.3f s >= x=%s" % (max(slow_rtt), x)
    else:
        return_inconclusive = None
    if kind in ("responsive", "cut-then-responsive", "close") and not return_inconclusive:
        # every ping was answered within one interval, so the monitor must never drop
        if drops:
            key = "C16/responsive-peer-dropped"
            if paused_app is not None and all(t >= t_pause - 1e-9 for t in drops):
                # one mechanism, keyed on its own: the Leader's application paused reading, the Follower kept answering
                key = "C16/responsive-peer-dropped/leader-application-paused-reading"
            viol.append({"key": key, "msg": "leader dropped the connection at t=%s although every pong arrived within %.3f s < x=%s%s" % (
                [round(t, 3) for t in drops], max(lat_log) if lat_log else 0.0, x,
                (" (the Leader's own application had paused a subchannel from t=%.3f for %.2f intervals)" % (t_pause, paused_for / x)) if paused_app is not None else ""),
                "witness": wit()})
        responsive_intervals = int((t_end - t_conn) / x)
        if kind == "cut-then-responsive" and cuts:
            # monitoring resumes on the next connection
            pings_after = [t for (t, w, e) in ev_l if w == "ping" and mades and t > mades[-1] + x]
            if len(mades) >= 2 and t_end - mades[-1] > 3 * x and not pings_after:
                viol.append({"key": "C16/monitoring-does-not-resume", "msg": "no ping on the replacement connection made at t=%.3f" % mades[-1], "witness": wit()})
        if kind == "responsive" and len(pongs) < 2 and (t_end - t_conn) > 4 * x:
            viol.append({"key": "C16/no-pings-on-responsive-link", "msg": "%d pongs in %.1f intervals" % (len(pongs), (t_end - t_conn) / x), "witness": wit()})
    quota["on"] = False
    nb["off"] = True
    if dp2 is not None:
        dp2.a.close()
        dp2.b.close()
    if bulk is not None:
        bulk.stopProducing()
    if kind != "close":
        dp.a.close()
        dp.b.close()
    sch.hook = None
    sch.filter = None
    sch.drain(120.0, 10000, until=lambda: dp.a.closed and dp.b.closed)
    after_stop = [(t, w) for (t, m, w, e) in _events if w in ("ping", "drop") and dp.a.closed and dp.b.closed and t > r.seconds()]
    world.finish()
    _world[0] = None
    nontrivial = None
    if (kind.startswith("silent") or kind == "slow-then-silent") and silent_link is not None:
        nontrivial = [kind, x, round(t0 - t_conn, 3), lat["mode"]]
    elif len(pongs) >= 3:
        nontrivial = [kind, x, lat["mode"], lat_log[:5], len(pongs)]
    if return_inconclusive:
        return {"inconclusive": return_inconclusive, "violations": []}
    return {"violations": viol, "nontrivial": nontrivial,
            "counters": {"pongs": len(pongs), "pings": len([1 for (t, w, e) in ev_l if w == "ping"]), "silent_cases_dropped": silent_dropped,
                         "responsive_intervals": responsive_intervals, "drops": len(drops), "cuts": cuts, "kind_" + kind: 1, "repeated_silent_episodes": len(episodes) if (kind == "silent" and again) else 0,
                         "leader_app_paused_cases": int(paused_app is not None), "suspensions": suspended[0],
                         "stops_with_lingering_connection": int(spec["kind"] == "close-lingering" and bool(lingering.get("unsent")) and lingering.get("state_after") == "STOPPING"),
                         "bulk_cases": int(bulk is not None), "bulk_bytes_written": bulk.written if bulk else 0,
                         "pings_sent_while_outbound_paused": paused_pings[0],
                         "neighbour_connection_losses": nb["cuts"],
                         "silent_with_a_little_unsent_data": int(bool(spec.get("trickle")) and r.blackhole_sndbuf is not None and r.blackhole_sndbuf < trickle["written"] < r.blackhole_sndbuf + 65536)},
            "sample": {"spec": spec, "x": x, "leader": lead, "pongs": len(pongs), "drops": [round(t, 3) for t in drops], "t0": t0,
                       "latencies": lat_log[:6], "leader_events": [(round(t, 2), w) for (t, w, e) in ev_l][:14]}}
