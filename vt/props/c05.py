"""C05 - `wormhole receive` writes only where it said it would, and never clobbers."""
import hashlib
import io
import os
import sys
import zipfile

from twisted.internet import defer

from ..env import World, URL
from ..sched import Scheduler
from ..transit_work import Result
from ..cli_work import mkargs, outcome, snapshot, force_rmtree, new_sandbox, ANSWERS

from wormhole import create
from wormhole.cli import cmd_receive
from wormhole.transit import TransitSender
from wormhole.util import bytes_to_dict, dict_to_bytes

PID = "C05"
LEVEL = "exploration"
RULE = ("real cmd_receive.Receiver in a fresh sandbox <tmp>/{canaries outside, cwd/{pre-existing files "
        "and dirs}} against a scripted malicious sender (library wormhole + TransitSender) with "
        "hand-made offers and zip archives: offered names absolute / '..' chains / separators / "
        "backslashes / empty / '.' / '..' / long / unicode / control chars / non-strings; zip members "
        "'../x', '/abs', 'a/../../b', '', '.', '..', duplicates, directory entries, symlink-typed "
        "entries, 0/setuid/dir permission bits, sibling-prefix names; crossed with --output-file unset / "
        "new / existing file / existing dir / nested, --accept-file on/off (prompt y/n), destination "
        "pre-existing as file / dir / absent. Monitors: sys.addaudithook write log + before/after "
        "snapshot. Non-trivial = the receiver got as far as deciding a destination (wrote something or "
        "refused); distinct = (offer kind, name, members, configuration, outcome).")
ASSUMPTIONS = ["the audit hook sees every Python-level filesystem mutation (open for write, rename, remove, "
               "mkdir, rmdir, chmod, chown, link, symlink, truncate, utime, shutil.*)",
               "a temporary file <dest>.tmp / <dest>.<n>.tmp that did not exist before is part of the destination's footprint; a file of that name that did exist is the user's and must survive"]
FLOORS = {"quick": {"writes_observed": 300, "transfers_completed": 60, "refusals": 40, "evil_members": 200, "tmp_sibling_cases": 40},
          "thorough": {"writes_observed": 12000, "transfers_completed": 2500, "refusals": 1500, "evil_members": 8000, "tmp_sibling_cases": 1500}}
APPID = "lothar.com/wormhole/text-or-file-xfer"
NAMES = ["good.txt", "/etc/passwd-vt", "/tmp/abs-vt", "../up.txt", "../../up2", "a/b/c.txt", "dir/", "trail//", "a\\b.txt",
         "..\\..\\win", "", ".", "..", "...", "x" * 200, "ünï✓", "ctl\x07\x1bname", "new\nline", " spaced ", "-rf", "~",
         "canary-outside.txt", "../canary-outside.txt", "pre.file", "pre.dir", "sub/pre.file", "./good2", "a/../../b",
         123, None, ["l"], {"d": 1}, 1.5, True,
         # characters that only LOOK like separators and dots (compatibility forms): legal parts of one file name
         "\u2025\uff0fcanary-outside.txt", "pre.dir\uff0fevil", "\uff0e\uff0e\uff0fup3", "\u2024\u2024\u2215up4", "\uff47ood.txt"]
MEMBERS = ["ok.txt", "sub/ok2.txt", "../x", "../../y", "/abs-member-vt", "a/../../b", "", ".", "..", "./", "../",
           "sub/", "sub/../../z", "dup", "dup", "..\\w", "pre.file", "../pre.file", "../pre.dir/evil", "DEST-evil/q",
           "../DEST-evil/q", "../DEST.tmp", "ünï/✓", "very/" * 20 + "deep", "link-to-outside", "setuid", "zeroperm", "dirperm-file"]
OUTS = [None, None, None, "out.new", "pre.file", "pre.dir", "pre.dir/nested.new", "nodir/out", "../outside-out", "/ABS/out-abs"]

_AUDIT = {"root": None, "log": []}
_WRITE_EVENTS = ("os.rename", "os.remove", "os.mkdir", "os.rmdir", "os.chmod", "os.chown", "os.link", "os.symlink",
                 "os.truncate", "os.utime", "shutil.rmtree", "shutil.move", "shutil.copyfile", "shutil.copymode",
                 "shutil.copystat", "shutil.copytree", "shutil.chown", "os.lchown", "os.mkfifo", "os.mknod", "os.replace")


def _hook(event, args):
    root = _AUDIT["root"]
    if root is None:
        return
    try:
        paths = []
        if event == "open":
            path, mode, flags = args
            if isinstance(flags, int) and (flags & (os.O_WRONLY | os.O_RDWR | os.O_CREAT | os.O_TRUNC | os.O_APPEND)):
                paths = [path]
        elif event in _WRITE_EVENTS:
            paths = [a for a in args[:2] if isinstance(a, (str, bytes))]
            if event in ("os.symlink",):
                paths = [args[1]]
            if event in ("os.chmod", "os.mkdir", "os.remove", "os.rmdir", "os.truncate", "os.utime", "os.chown"):
                paths = [args[0]] if isinstance(args[0], (str, bytes)) else []
        for p in paths:
            if isinstance(p, bytes):
                p = p.decode("utf-8", "surrogateescape")
            ap = os.path.abspath(p)
            if ap.startswith(root):
                _AUDIT["log"].append((event, ap))
    except Exception:
        pass


_installed = [False]


def install_hook():
    if not _installed[0]:
        sys.addaudithook(_hook)
        _installed[0] = True


BENIGN = [i for i, m in enumerate(MEMBERS) if m in ("ok.txt", "sub/ok2.txt", "sub/", "dup", "ünï/✓", "setuid", "zeroperm",
                                                    "dirperm-file", "link-to-outside", "pre.file") or m.startswith("very/")]
EVIL = [i for i in range(len(MEMBERS)) if i not in BENIGN]


def pick_members(rng):
    """mostly benign members with at most one hostile one, so that the hostile member is actually
    reached (extraction stops at the first rejected member)"""
    ms = [rng.choice(BENIGN) for _ in range(rng.randint(0, 4))]
    x = rng.random()
    if x < 0.65:
        ms.insert(rng.randint(0, len(ms)), rng.choice(EVIL))
    elif x < 0.75:
        ms = [rng.randrange(len(MEMBERS)) for _ in range(rng.randint(1, 6))]
    return ms


def cases(tier, seed, prep=None):
    import random
    rng = random.Random(seed * 131 + 5)
    out = []
    n = 520 if tier == "quick" else 20000
    for i in range(n):
        kind = "file" if i % 3 == 0 else "directory"
        out.append({"seed": seed * 1000003 + 500000 + i, "offer": kind, "name_i": rng.randrange(len(NAMES)) if i % 4 else 0,
                    "out_i": rng.randrange(len(OUTS)), "accept": rng.choice([True, True, False]),
                    "answer": rng.choice(["y", "y", "n", ""]), "pre": rng.choice(["absent", "absent", "file", "dir"]),
                    "members": pick_members(rng) if kind == "directory" else [], "hangup": rng.choice([None, None, None, None, 0.0, 0.5])})
    # the interactive prompt in all its answers, crossed with the awkward destinations under --output-file=<dir>
    k = 0
    for nm in ("", ".", "..", "dir/", "trail//", "pre.dir", "good.txt"):
        for out_ in ("pre.dir", None):
            for ans in ("", "y", "yes", "Y", "n"):
                for kind in ("file", "directory"):
                    out.append({"seed": seed * 1000003 + 570000 + k, "offer": kind, "name_i": NAMES.index(nm), "out_i": OUTS.index(out_),
                                "accept": False, "answer": ans, "pre": ["absent", "dir", "file"][k % 3],
                                "members": pick_members(rng) if kind == "directory" else []})
                    k += 1
    # the configuration finds its working directory itself, with a stale $PWD in the environment
    for i in range(30 if tier == "quick" else 800):
        kind = "file" if i % 2 == 0 else "directory"
        out.append({"seed": seed * 1000003 + 595000 + i, "offer": kind, "name_i": 0, "out_i": rng.choice([0, 0, OUTS.index("out.new")]),
                    "accept": True, "answer": "y", "pre": "absent", "process_cwd": True,
                    "members": pick_members(rng) if kind == "directory" else []})
    # the receiver's options go through the real command-line parser (click), including the ways a script gets them wrong:
    # -o with an empty value (an unset shell variable) is "no --output-file"
    for i in range(40 if tier == "quick" else 1200):
        kind = "file" if i % 2 == 0 else "directory"
        out.append({"seed": seed * 1000003 + 597000 + i, "offer": kind, "name_i": [0, NAMES.index("pre.file"), NAMES.index("pre.dir")][i % 3],
                    "out_i": 0, "cmdline_out": ["", "", None, "out.new", "pre.dir"][(i // 3) % 5],
                    "accept": True, "answer": "y", "pre": ["file", "dir", "absent"][(i // 2) % 3], "cmdline": True,
                    "members": pick_members(rng) if kind == "directory" else []})
    # several receives in one process with one shared configuration object
    for i in range(30 if tier == "quick" else 800):
        out.append({"seed": seed * 1000003 + 590000 + i, "series": True, "n": 2 + i % 2, "out": [None, "inbox", "inbox"][i % 3]})
    # the user already has a file called <destination>.tmp next to where the destination will be
    for i in range(60 if tier == "quick" else 2000):
        kind = "file" if i % 3 != 2 else "directory"
        out.append({"seed": seed * 1000003 + 580000 + i, "offer": kind, "name_i": [0, NAMES.index("good.txt")][i % 2] if "good.txt" in NAMES else 0,
                    "out_i": rng.choice([0, 0, OUTS.index("pre.dir")]), "accept": rng.choice([True, True, False]),
                    "answer": "y", "pre": "absent", "tmp_sibling": ["file", "file", "link", "dangling"][i % 4],
                    # half of these transfers fail after they were accepted: the sender hangs up part-way
                    "hangup": [None, 0.5, None, 0.0, None, 0.9][i % 6],
                    "members": pick_members(rng) if kind == "directory" else []})
    # the destination name already exists as a symbolic link that leads out of the working directory
    for i in range(90 if tier == "quick" else 3000):
        kind = "file" if i % 2 == 0 else "directory"
        out.append({"seed": seed * 1000003 + 560000 + i, "offer": kind, "name_i": rng.choice([0, 0, rng.randrange(len(NAMES))]),
                    "out_i": rng.choice([0, 0, OUTS.index("pre.dir")]), "accept": rng.choice([True, False]),
                    "answer": rng.choice(["y", "y", "n"]), "pre": ["symlink-dangling", "symlink-file", "symlink-dir"][i % 3],
                    "members": pick_members(rng) if kind == "directory" else []})
    return out


def is_tmp_of(path, dest):
    """the receiver's temporary file for destination `dest`: <dest>.tmp or <dest>.<n>.tmp, next to it"""
    if path == dest + ".tmp":
        return True
    if path.startswith(dest + ".") and path.endswith(".tmp"):
        mid = path[len(dest) + 1:-4]
        return mid.isdigit()
    return False


def build_zip(rng, members, destname):
    buf = io.BytesIO()
    listed = []
    import warnings
    with warnings.catch_warnings():
        warnings.simplefilter("ignore")
        with zipfile.ZipFile(buf, "w", zipfile.ZIP_DEFLATED) as zf:
            for mi in members:
                name = MEMBERS[mi].replace("DEST", destname if isinstance(destname, str) and destname else "d")
                zi = zipfile.ZipInfo(name)
                data = rng.randbytes(rng.choice([0, 3, 100]))
                perm = 0o100644
                if name.endswith("/"):
                    perm = 0o40755
                    data = b""
                if name == "link-to-outside":
                    perm = 0o120777
                    data = b"../canary-outside.txt"
                elif name == "setuid":
                    perm = 0o104755
                elif name == "zeroperm":
                    perm = 0
                elif name == "dirperm-file":
                    perm = 0o40777
                zi.external_attr = (perm & 0xFFFF) << 16
                try:
                    zf.writestr(zi, data)
                    listed.append(name)
                except Exception:
                    pass
    return buf.getvalue(), listed


@defer.inlineCallbacks
def evil_sender(world, code, offer, payload, log, hangup=None):
    r = world.reactor
    w = create(APPID, URL, r)
    w.set_code(code)
    try:
        yield w.get_verifier()
        ts = TransitSender(None, no_listen=False, reactor=r)
        hints = yield ts.get_connection_hints()
        w.send_message(dict_to_bytes({"transit": {"abilities-v1": ts.get_connection_abilities(), "hints-v1": hints}}))
        ts.set_transit_key(w.derive_key(APPID + "/transit-key", ts.TRANSIT_KEY_LENGTH))
        w.send_message(dict_to_bytes({"offer": offer}))
        while True:
            m = bytes_to_dict((yield w.get_message()))
            if "error" in m:
                log.append(("rejected", m["error"]))
                return
            if "transit" in m:
                ts.add_connection_hints(m["transit"].get("hints-v1", []))
            if "answer" in m:
                break
        rp = yield ts.connect()
        if hangup is not None:
            # a sender that gives up in the middle (or right at the start) of the data
            cut = int(len(payload) * hangup)
            for i in range(0, cut, 16384):
                rp.send_record(payload[i:min(cut, i + 16384)])
            log.append(("hung up after", cut))
            rp.close()
            return
        for i in range(0, len(payload), 16384):
            rp.send_record(payload[i:i + 16384])
        log.append(("sent", len(payload)))
        ack = yield rp.receive_record()
        log.append(("ack", bytes_to_dict(ack).get("ack")))
        rp.close()
    except Exception as e:
        log.append(("error", type(e).__name__))
    finally:
        try:
            yield w.close()
        except Exception:
            pass


def _run_series(spec, world, base):
    """several receives one after another in one process, all driven by the SAME configuration object (what a
    program that embeds cmd_receive.receive() in a loop does): each file must land where its own offer says"""
    rng = world.work_rng
    r = world.reactor
    cwd = os.path.join(base, "case", "cwd")
    os.makedirs(os.path.join(cwd, "inbox"))
    with open(os.path.join(cwd, "inbox", "keep.txt"), "wb") as f:
        f.write(b"keep")
    with open(os.path.join(cwd, "other.txt"), "wb") as f:
        f.write(b"other")
    out = spec["out"]
    ra = mkargs(output_file=out, accept_file=True)
    ra.cwd = cwd
    names = rng.sample(["first.txt", "second.bin", "third", "ünï.dat", "a b.txt"], spec["n"])
    want = {}
    viol = []
    outcomes = []
    for i, nm in enumerate(names):
        payload = rng.randbytes(rng.choice([1, 100, 20000]))
        code = "%d-series-%d" % (rng.randint(1, 900), i)
        ra.code = code
        ra.stdout, ra.stderr = io.StringIO(), io.StringIO()
        elog = []
        rr = Result(cmd_receive.Receiver(ra, r).go())
        rs = Result(evil_sender(world, code, {"file": {"filename": nm, "filesize": len(payload)}}, payload, elog))
        sch = Scheduler(world, None, strategy=rng.choice(["random", "netfirst"]), chunking="whole")
        sch.run(20000, until=lambda: rr.done and rs.done)
        if not (rr.done and rs.done):
            sch.drain(300.0, 30000, until=lambda: rr.done and rs.done)
        outcomes.append(outcome(rr))
        if outcome(rr) == "success":
            dest = os.path.join("inbox", nm) if out == "inbox" else nm
            want[dest] = payload
        if out is not None and out != "inbox":
            break         # --output-file names one file: a second receive into it is a different question
    after = snapshot(cwd)
    wit = {"spec": spec, "names": names, "outcomes": outcomes, "tree": {k: v[:2] for k, v in after.items()}}
    for dest, payload in want.items():
        got = after.get(dest)
        if got is None or got[0] != "file" or got[1] != len(payload) or got[2] != hashlib.sha256(payload).hexdigest():
            viol.append({"key": "C05/series/file-not-at-its-own-destination", "msg": "receive %d of %d reported success for %r, but %r is %r" % (
                list(want).index(dest) + 1, len(names), os.path.basename(dest), dest, got and got[:2]), "witness": wit})
            break
    for k in ("inbox/keep.txt", "other.txt"):
        if after.get(k, (None,))[0] != "file" or after[k][1] != {"inbox/keep.txt": 4, "other.txt": 5}[k]:
            viol.append({"key": "C05/existing-file-clobbered", "msg": "%r changed during a series of receives: %r" % (k, after.get(k)), "witness": wit})
    extra = sorted(set(after) - set(want) - {"inbox", "inbox/keep.txt", "other.txt"})
    if extra:
        viol.append({"key": "C05/series/unexpected-entry", "msg": "after the series the directory also holds %r" % extra[:5], "witness": wit})
    return {"violations": viol, "nontrivial": ["series", spec["seed"], out, names], "counters": {"series_receives": len(outcomes), "transfers_completed": outcomes.count("success")},
            "sample": {"spec": spec, "outcomes": outcomes}}


def run_case(spec):
    install_hook()
    world = World(spec["seed"])
    base = os.path.realpath(new_sandbox("vt-c05-"))
    try:
        if spec.get("series"):
            return _run_series(spec, world, base)
        return _run(spec, world, base)
    finally:
        _AUDIT["root"] = None
        world.finish()
        force_rmtree(base)


def _run(spec, world, base):
    rng = world.work_rng
    r = world.reactor
    cwd = os.path.join(base, "case", "cwd")
    os.makedirs(cwd)
    # canaries outside the working directory and pre-existing content inside
    for p, data in (("case/canary-outside.txt", b"canary"), ("case/outside-dir/keep.txt", b"keep"),
                    ("case/cwd-evil/sib.txt", b"sibling"), ("case/cwd/pre.file", b"precious"),
                    ("case/cwd/pre.dir/inside.txt", b"inside"), ("case/cwd/sub/pre.file", b"subprecious"),
                    ("case/cwd/other.txt", b"other")):
        fp = os.path.join(base, p)
        os.makedirs(os.path.dirname(fp), exist_ok=True)
        with open(fp, "wb") as f:
            f.write(data)
    name = NAMES[spec["name_i"]]
    out = OUTS[spec["out_i"]]
    if spec.get("cmdline"):
        out = spec["cmdline_out"] or None       # (an empty value is no value)
    if out == "/ABS/out-abs":
        out = os.path.join(base, "case", "abs-out-target")
    # optionally pre-create the destination the offer's basename points at
    bn = os.path.basename(name) if isinstance(name, str) else None
    pre = spec["pre"]
    if bn and bn not in (".", "..") and pre != "absent" and "\x00" not in bn and len(bn) < 200 and "/" not in bn:
        target = os.path.join(cwd, bn)
        if pre.startswith("symlink") and out == "pre.dir":
            target = os.path.join(cwd, "pre.dir", bn)        # --output-file names an existing directory: the child is the destination
        if not os.path.lexists(target):
            if pre.startswith("symlink"):
                outside = os.path.join(base, "case", "outside-dir")
                os.symlink({"symlink-dangling": os.path.join(outside, "not-there"), "symlink-file": os.path.join(outside, "keep.txt"),
                            "symlink-dir": outside}[pre], target)
            elif pre == "file":
                with open(target, "wb") as f:
                    f.write(b"pre-existing destination file")
            else:
                os.makedirs(os.path.join(target, "k"))
                with open(os.path.join(target, "k", "v"), "wb") as f:
                    f.write(b"pre-existing destination dir")
    else:
        pre = "absent" if not (bn and os.path.lexists(os.path.join(cwd, bn))) else ("file" if os.path.isfile(os.path.join(cwd, bn)) else "dir")
    # a file of the user's own whose name is the destination's plus ".tmp" (any other existing file must survive a receive)
    tmp_sibling = 0
    if spec.get("tmp_sibling") and bn and bn not in (".", "..") and "\x00" not in bn and len(bn) < 200 and "/" not in bn:
        for dd in ([cwd] if out is None else [cwd, os.path.join(cwd, "pre.dir")]):
            tp = os.path.join(dd, bn + ".tmp")
            if os.path.isdir(dd) and not os.path.lexists(tp):
                how = spec["tmp_sibling"]
                outside = os.path.join(base, "case", "outside-dir")
                if how == "file":
                    with open(tp, "wb") as f:
                        f.write(b"the user's own file, not ours to touch")
                elif os.path.isdir(outside):
                    # ... or a link of the user's that leads somewhere else entirely
                    os.symlink(os.path.join(outside, "keep.txt" if how == "link" else "not-there-either"), tp)
                else:
                    continue
                tmp_sibling = 1
    if spec["offer"] == "file":
        payload = rng.randbytes(rng.choice([0, 10, 20000]))
        offer = {"file": {"filename": name, "filesize": len(payload)}}
        listed = []
    else:
        payload, listed = build_zip(rng, spec["members"], bn)
        offer = {"directory": {"mode": "zipfile/deflated", "dirname": name, "zipsize": len(payload),
                               "numbytes": rng.choice([0, 100, len(payload)]), "numfiles": len(listed)}}
    code = "%d-evil-sender" % rng.randint(1, 900)
    if spec.get("process_cwd"):
        # the command is started by a script with cwd=<inbox> while $PWD still names the script's own directory (only
        # shells keep the two in step): the configuration object works out its directory by itself
        old_cwd, old_pwd = os.getcwd(), os.environ.get("PWD")
        os.chdir(cwd)
        os.environ["PWD"] = os.path.join(base, "case", "cwd-evil")
        try:
            ra = mkargs(code=code, output_file=out, accept_file=spec["accept"])
        finally:
            os.chdir(old_cwd)
            if old_pwd is None:
                os.environ.pop("PWD", None)
            else:
                os.environ["PWD"] = old_pwd
        if os.path.realpath(ra.cwd) != os.path.realpath(cwd):
            pass        # (judged below by where the files end up)
    elif spec.get("cmdline"):
        from wormhole.cli import cli as cli_mod
        argv = ["receive"] + (["--accept-file"] if spec["accept"] else [])
        if spec["cmdline_out"] is not None:
            argv += ["-o", spec["cmdline_out"]]
        argv.append(code)
        captured = []
        orig_go = cli_mod.go
        cli_mod.go = lambda f_, cfg_: captured.append(cfg_)
        try:
            cli_mod.wormhole.main(args=argv, standalone_mode=False)
        finally:
            cli_mod.go = orig_go
        parsed = captured[0]
        ra = mkargs(code=parsed.code, output_file=parsed.output_file, accept_file=parsed.accept_file)
        ra.cwd = cwd
    else:
        ra = mkargs(code=code, output_file=out, accept_file=spec["accept"])
        ra.cwd = cwd
    del ANSWERS[:]
    ANSWERS.append(spec["answer"])
    before = snapshot(base)
    _AUDIT["log"] = []
    _AUDIT["root"] = base + os.sep
    elog = []
    receiver = cmd_receive.Receiver(ra, r)
    rr = Result(receiver.go())
    rs = Result(evil_sender(world, code, offer, payload, elog, hangup=spec.get("hangup")))
    sch = Scheduler(world, None, strategy=rng.choice(["random", "netfirst"]), chunking="whole")
    sch.run(20000, until=lambda: rr.done and rs.done)
    if not (rr.done and rs.done):
        sch.drain(300.0, 30000, until=lambda: rr.done and rs.done)
    _AUDIT["root"] = None
    log = list(_AUDIT["log"])
    after = snapshot(base)
    ro = outcome(rr)

    # ---- oracle
    viol = []
    changed = sorted(k for k in set(before) | set(after) if before.get(k) != after.get(k))
    written = sorted({os.path.relpath(p, base) for (_, p) in log} | set(changed))
    wit = {"spec": spec, "offer_name": repr(name), "output_file": out, "accept_file": spec["accept"], "answer": spec["answer"],
           "pre": pre, "members": listed, "receiver": ro, "receiver_err": repr(rr.failure.value)[:200] if rr.failure else None,
           "audit_log": [(e, os.path.relpath(p, base)) for (e, p) in log][:40], "changed": changed[:30],
           "sender_log": elog, "stderr": ra.stderr.getvalue()[-500:]}
    cwd_rel = os.path.relpath(cwd, base)
    # the one destination this configuration permits
    if out is None:
        parent = cwd
    else:
        o_abs = os.path.abspath(os.path.join(cwd, out))
        parent = o_abs if (o_abs in [os.path.join(base, k) for k, v in before.items() if v[0] == "dir"]) else None
    dests = set()
    for w_rel in written:
        ap = os.path.join(base, w_rel)
        if out is not None and parent is None:
            d = os.path.abspath(os.path.join(cwd, out))       # --output-file names the destination itself
            if ap == d or is_tmp_of(ap, d) or ap.startswith(d + os.sep):
                dests.add(d)
                continue
            viol.append({"key": "C05/write-outside-output-file", "msg": "wrote %r but --output-file is %r" % (w_rel, out), "witness": wit})
            continue
        rel = os.path.relpath(ap, parent)
        if rel.split(os.sep)[0] == ".." or rel == ".":
            viol.append({"key": "C05/write-outside-destination-parent", "msg": "wrote %r which is not beneath %r (offer name %r)" % (w_rel, os.path.relpath(parent, base), name),
                         "witness": wit})
            continue
        first = rel.split(os.sep)[0]
        d = os.path.join(parent, first)
        if rel == first and bn and is_tmp_of(d, os.path.join(parent, bn)):
            d = os.path.join(parent, bn)
        elif first.endswith(".tmp") and rel == first:
            d = d[:-4]
        dests.add(d)
    if len(dests) > 1:
        viol.append({"key": "C05/several-destinations", "msg": "writes went to %s" % sorted(os.path.relpath(d, base) for d in dests), "witness": wit})
    # the destination must be the offer's basename (or the output-file target)
    for d in dests:
        if out is None or parent is not None:
            want = bn if isinstance(name, str) else None
            if want is None or os.path.basename(d) != want:
                viol.append({"key": "C05/destination-not-offer-basename", "msg": "destination %r for offered name %r" % (os.path.relpath(d, base), name), "witness": wit})
    # pre-existing things
    for k, v in before.items():
        ap = os.path.join(base, k)
        a = after.get(k)
        if v[0] == "dir" and (a is None or a[0] != "dir"):
            viol.append({"key": "C05/existing-directory-removed-or-replaced", "msg": "%r was a directory before, now %r" % (k, a), "witness": wit})
        if v[0] == "file" and a != v:
            allowed = False
            if out is not None:
                o_abs = os.path.abspath(os.path.join(cwd, out))
                if ap == o_abs:
                    allowed = True             # --output-file names it
                if os.path.dirname(ap) == o_abs and before.get(os.path.relpath(o_abs, base), ("",))[0] == "dir":
                    allowed = True             # --output-file names the existing directory containing it
            if not allowed:
                viol.append({"key": "C05/existing-file-clobbered", "msg": "%r changed from %r to %r (--output-file=%r)" % (k, v[:2], a and a[:2], out),
                             "witness": wit})
    # (a dangling link is "absent" for os.path.exists, which is what the receiver asks; it may be replaced, in place)
    if out is None and pre not in ("absent", "symlink-dangling") and bn:
        if ro == "success":
            viol.append({"key": "C05/success-over-existing-destination", "msg": "destination %r existed (%s) and no --output-file was given, yet receive succeeded" % (bn, pre),
                         "witness": wit})
    completed = ro == "success"
    refused = ("refusing to overwrite" in wit["stderr"]) or ("Not deleting" in wit["stderr"]) or ("malicious zipfile" in (wit["receiver_err"] or ""))
    nontrivial = None
    if written or refused or completed:
        nontrivial = [spec["offer"], repr(name), listed, out, spec["accept"], spec["answer"], pre, ro]
    evil = sum(1 for m in listed if m.startswith("..") or m.startswith("/") or "/../" in m or m in ("", ".", "..", "./", "../") or "evil" in m or m in ("link-to-outside", "setuid", "zeroperm", "dirperm-file"))
    return {"violations": viol, "nontrivial": nontrivial,
            "counters": {"writes_observed": len(log), "transfers_completed": int(completed), "refusals": int(refused),
                         "evil_members": evil, "offer_" + spec["offer"]: 1, "pre_symlink_cases": int(str(pre).startswith("symlink")), "tmp_sibling_cases": tmp_sibling, "stale_PWD_cases": int(bool(spec.get("process_cwd"))), "options_through_the_real_command_line_parser": int(bool(spec.get("cmdline"))), "sender_hung_up": int(any(e[0] == "hung up after" for e in elog)), "rejected_by_receiver": int(ro != "success"),
                         "paths_changed": len(changed)},
            "sets": {"receiver_errors": [type(rr.failure.value).__name__ + ":" + str(rr.failure.value)[:50]] if rr.failure else []},
            "sample": {"spec": spec, "offer_name": repr(name), "members": listed, "output_file": out, "pre": pre, "receiver": ro,
                       "written": written[:12], "stderr_tail": ra.stderr.getvalue()[-200:]}}
