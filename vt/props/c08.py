"""C08 - close() completes once, with the right verdict, and frees server resources."""
from ..mailbox_work import build_case, trace_digest, events_view
from ..apps import WApp
from ..env import client_link, rc_of, World
from ..sched import Scheduler
from ..monitors import MON, state_of

PID = "C08"
LEVEL = "fault_enumeration"
RULE = ("baseline two-party scripts (allocate/set/input, 0-6 messages, Deferred and delegate API) "
        "re-executed with close() inserted before step k on A or B (k swept), 1-3 close() calls, "
        "optionally with client-link cuts shortly before/after the close; plus random close/cut "
        "patterns, mismatched codes, a real third client (crowded -> ServerError) and welcome{error}. "
        "Oracle: reference verdict model over the Boss's input order + the real server's tables. "
        "Non-trivial = close issued before the natural end of the protocol; distinct = "
        "(closer, machine states at close(), verdict, cuts) tuples.")
ASSUMPTIONS = ["a mailbox whose id the client never learned (close before `claimed`) cannot be closed by it: exempt",
               "a nameplate the server allocated whose `allocated` reply was lost is exempt",
               "bounded progress: 300 virtual seconds of stable connectivity"]
FLOORS = {"quick": {"scared_sides_whose_close_the_server_refused": 3, "closed_sides": 1500, "close_mid_protocol": 500, "verdict_Lonely": 50, "verdict_happy": 50,
                    "verdict_WrongPassword": 10, "verdict_ServerError": 5, "verdict_WelcomeError": 5,
                    "gets_after_closed": 3000, "unread_backlog_at_closed": 30, "unreachable_cases": 30},
          "thorough": {"scared_sides_whose_close_the_server_refused": 80, "closed_sides": 30000, "close_mid_protocol": 10000, "gets_after_closed": 100000, "unread_backlog_at_closed": 1000, "unreachable_cases": 800}}
MOOD = {"happy": "happy", "LonelyError": "lonely", "WrongPasswordError": "scary",
        "ServerError": "errory", "WelcomeError": "unwelcome"}


def cases(tier, seed, prep=None):
    out = []
    q = tier == "quick"
    modes = ["tcp"] if q else ["tcp", "tcp", "tls"]
    bases = range(3) if q else range(20)
    for b in bases:
        for who in "AB":
            for k in range(0, 170, 3 if q else 1):
                out.append({"kind": "closesweep", "seed": seed * 7919 + 500 + b, "close_at": k, "who": who,
                            "ncalls": 1 + (k % 3), "mode": modes[(b + k) % len(modes)]})
    # the same with dilate() called on both sides (Terminator then also waits for the Dilator)
    for b in (range(1) if q else range(6)):
        for who in "AB":
            for k in range(0, 120, 2 if q else 1):
                out.append({"kind": "closesweep", "seed": seed * 7919 + 700 + b, "close_at": k, "who": who,
                            "ncalls": 1, "mode": "tcp", "dilate": True})
    # close with cuts around it
    for b in (range(2) if q else range(12)):
        for who in "AB":
            for k in range(4, 150, 9 if q else 2):
                for off in (-6, -1, 1, 4, 12):
                    out.append({"kind": "closesweep", "seed": seed * 7919 + 600 + b, "close_at": k, "who": who,
                                "ncalls": 1, "cut": [k + off, who], "mode": "tcp"})
    n = 150 if q else 6000
    for i in range(n):
        out.append({"kind": "closerandom", "seed": seed * 1000003 + 900000 + i, "mode": modes[i % len(modes)]})
    # the closing side has not read everything it received (Deferred API): nothing of that backlog may be
    # handed out once the closed notification has fired
    for i in range(60 if q else 2000):
        who = "ab"[i % 2]
        out.append({"kind": "closerandom", "seed": seed * 1000003 + 950000 + i, "mode": "tcp", "min_msgs": 2,
                    "cfg_over": {"api_" + who: "deferred", "get_" + who: ["never", "lazy"][i // 2 % 2], "get_limit": i % 3}})
    for i in range(36 if q else 900):
        out.append({"kind": "unreachable", "seed": seed * 1000003 + 960000 + i, "how": ["refused", "silent", "no-such-name"][i % 3], "api": ["deferred", "delegate"][i // 3 % 2]})
    for i in range(40 if q else 1200):
        out.append({"kind": "mismatch", "seed": seed * 1000003 + 910000 + i, "close_at": (i * 7) % 160, "who": "AB"[i % 2]})
    for i in range(30 if q else 800):
        out.append({"kind": "crowded", "seed": seed * 1000003 + 920000 + i})
    # a pair with DIFFERENT codes whose mailbox is crowded by a third side, with reconnects: the server may refuse the
    # close of a side that has just closed itself scared - which must not change its verdict
    for i in range(40 if q else 1200):
        out.append({"kind": "crowded", "seed": seed * 1000003 + 925000 + i, "mismatch": True, "drops": 1 + i % 3})
    for i in range(40 if q else 1000):
        out.append({"kind": "late-unwelcome", "seed": seed * 1000003 + 940000 + i, "at": 20 + (i * 13) % 250, "who": "AB"[i % 2]})
    for i in range(20 if q else 500):
        out.append({"kind": "unwelcome", "seed": seed * 1000003 + 930000 + i, "welcome_error": "go away %d" % i,
                    "close_at": (i * 5) % 60, "who": "AB"[i % 2]})
    return out


def run_unreachable(spec):
    """the very first connection to the mailbox server fails (refused, or no answer at all, or the name does not
    resolve): the wormhole ends by itself with ServerConnectionError - told once, every get_*() and close() fail with it"""
    from ..env import MAILBOX_PORT
    world = World(spec["seed"])
    rng = world.work_rng
    r = world.reactor
    how = spec["how"]
    if how == "refused":
        r.refuse.add("10.9.9.1")
    elif how == "silent":
        r.unroutable.add("10.9.9.1")
    else:
        r.names["mailbox.sim"] = None        # resolution finishes without an address
    app = WApp(world, "A", api=spec["api"])
    sch = Scheduler(world, None, strategy="random", chunking="whole")
    calls = rng.sample(["set_code", "allocate_code", "send", "close-early"], rng.randint(0, 3))
    for c in calls:
        try:
            if c == "set_code":
                app.call("set_code", "4-purple-sausages")
            elif c == "allocate_code":
                app.call("allocate_code")
            elif c == "send":
                app.send(b"queued")
        except Exception:
            pass
    if "close-early" in calls:
        app.close()
    sch.drain(400.0, 20000, until=lambda: app.closed or any(k.endswith("-err") for k in app.kinds()))
    sch.drain(5.0, 1000)
    if not app.close_calls:
        app.close()
    sch.drain(120.0, 5000, until=lambda: app.closed)
    viol = []
    wit = {"spec": spec, "events": events_view(app), "calls": app.calls[:10], "close": app.close_results, "netlog_tail": r.netlog[-10:]}
    ok_verdicts = ("ServerConnectionError", "LonelyError") if "close-early" in calls else ("ServerConnectionError",)
    if not app.closed:
        viol.append({"key": "C08/close-never-completes/server-unreachable", "msg": "the server cannot be reached (%s): no closed notification within 400+120 virtual s" % how, "witness": wit})
    else:
        if len(set(app.close_results)) != 1 or app.close_results[0] not in ok_verdicts:
            viol.append({"key": "C08/verdict/%s-instead-of-ServerConnectionError" % app.close_results[0], "msg": "server unreachable (%s), verdicts %r" % (how, app.close_results), "witness": wit})
        kinds = app.kinds()
        if app.api == "delegate" and kinds.count("closed") != 1:
            viol.append({"key": "C08/closed-notification-count", "msg": "%s" % kinds, "witness": wit})
        if any(k in kinds for k in ("key", "verifier", "versions", "msg")):
            viol.append({"key": "C08/event-without-a-server", "msg": "%s" % kinds, "witness": wit})
    # the client must have stopped trying
    t0 = len(r.netlog)
    sch.drain(300.0, 5000)
    dials = [x for x in r.netlog[t0:] if x[0] == "dial"]
    if app.closed and dials:
        viol.append({"key": "C08/still-dialling-after-closed", "msg": "%d connection attempts to the server after the closed notification" % len(dials), "witness": wit})
    world.finish()
    v = app.close_results[0] if app.close_results else "none"
    return {"violations": viol, "nontrivial": ["unreachable", how, spec["api"], tuple(calls)], "counters": {"closed_sides": int(app.closed), "unreachable_cases": 1,
            "verdict_ServerConnection": int(v == "ServerConnectionError")}, "sets": {"verdicts": [v]}, "sample": {"spec": spec, "verdict": v}}


def model_verdict(app):
    happy = False
    for (step, old, inp) in app.binputs:
        if inp == "happy":
            happy = True
        elif inp == "rx_unwelcome":
            return "WelcomeError", step
        elif inp == "rx_error":
            return "ServerError", step
        elif inp == "scared":
            return "WrongPasswordError", step
        elif inp == "close":
            return ("happy" if happy else "LonelyError"), step
        elif inp == "error":
            return "<internal error>", step
    return None, None


def machine_states(app):
    b = app.w._boss
    return "B=%s N=%s M=%s T=%s" % (state_of(b), state_of(b._N), state_of(b._M), state_of(b._T))


def run_case(spec):
    if spec["kind"] == "unreachable":
        return run_unreachable(spec)
    kind = spec["kind"]
    sub = dict(spec)
    sub["kind"] = "sweep" if "cut" in spec else "plain"
    if "cut" in spec:
        sub["drop_at"], sub["who"] = spec["cut"]
    world, drv, sch, cfg = build_case(sub, max_msgs=6, max_size=100, adversary=(spec["seed"] % 2 == 0))
    rng = world.work_rng
    if spec.get("dilate"):
        drv.a.w.dilate()
        drv.b.w.dilate()
    states_at_close = {}
    apps = [drv.a, drv.b]

    def do_close(app, n=1):
        if app.name not in states_at_close:
            states_at_close[app.name] = (machine_states(app), world.step)
        for _ in range(n):
            app.close()
    if kind == "mismatch":
        drv.code_for_b = lambda: (None if drv.a.code is None else drv.a.code + "-x")
    third = None
    if kind == "crowded" and spec.get("mismatch"):
        drv.code_for_b = lambda: (None if drv.a.code is None else drv.a.code + "-x")
        for _ in range(spec.get("drops", 0)):
            sch.faults.append((rng.randint(10, 200), lambda n=rng.choice("AB"): drv.drop(n), "drop"))
        sch.faults.sort(key=lambda f: f[0])
        # ... and the connection of a side is lost right after it got scared: its close goes out on the next connection
        dropped_on_scare = set()

        def scare_hook():
            for n_ in "AB":
                if n_ not in dropped_on_scare and any(i == "scared" for (_, _, i) in drv.app(n_).binputs):
                    dropped_on_scare.add(n_)
                    if spec["seed"] % 4 != 3:
                        drv.drop(n_)
        sch.hook = scare_hook
    if kind == "crowded":
        base_actions = drv.actions

        def actions():
            acts = base_actions()
            nonlocal third
            if third is None and drv.a.code and drv.b_started and rng.random() < 0.2 and not (spec.get("mismatch") and any(a_.close_calls for a_ in apps)):
                def mk():
                    nonlocal third
                    third = WApp(world, "C", api=rng.choice(["deferred", "delegate"]))
                    third.call("set_code", drv.a.code)
                    apps.append(third)
                acts.append((("app", "C.create"), mk))
            return acts
        drv.actions = actions
        drv.drain_actions = actions
    if kind in ("closesweep", "mismatch", "unwelcome"):
        who = drv.app(spec["who"])
        sch.faults.append((spec["close_at"], lambda: do_close(who, spec.get("ncalls", 1)), "close " + spec["who"]))
        sch.faults.sort(key=lambda f: f[0])
    elif kind == "late-unwelcome":
        # the server starts greeting with an error (operator restart with --signal-error); the next
        # reconnect of `who` meets it
        def turn():
            world.welcome_override = {"error": "server going away"}
        sch.faults.append((spec["at"], turn, "welcome error from now on"))
        sch.faults.append((spec["at"] + rng.randint(1, 30), lambda: drv.drop(spec["who"]), "drop " + spec["who"]))
        sch.faults.sort(key=lambda f: f[0])
    elif kind == "closerandom":
        for name in rng.sample("AB", rng.choice([1, 2])):
            k = rng.randint(0, 200)
            sch.faults.append((k, lambda a=drv.app(name): do_close(a, rng.choice([1, 1, 2, 3])), "close " + name))
            for _ in range(rng.choice([0, 1, 2])):
                sch.faults.append((max(0, k + rng.randint(-15, 25)), lambda n=name: drv.drop(n), "drop " + name))
        sch.faults.sort(key=lambda f: f[0])
    natural_end = lambda: drv.all_delivered() and (kind != "crowded" or (third is not None and third.kinds()))
    sch.run(700, until=natural_end)
    sch.drain(60.0, 3000, until=natural_end)
    protocol_finished = drv.all_delivered()
    for app in apps:
        if not app.close_calls:
            do_close(app)
    end = sch.drain(300.0, 12000, until=lambda: all(a.closed for a in apps))
    if end == "steps":
        # the step cap, not the virtual-time bound, ended the drain: no verdict on this case
        world.finish()
        return {"inconclusive": "step cap reached in the final drain", "violations": []}
    # one more batch so late events (if any) show up
    sch.drain(5.0, 300)
    # ... and whatever the application asks for after the closed notification must fail, not deliver
    late_gets = 0
    backlog = 0
    for app in apps:
        if app.api == "deferred" and app.closed:
            backlog += len(getattr(getattr(app.w, "_received_observer", None), "_results", ()))
            for what in ("message", "message", "message", "versions", "verifier", "unverified_key", "code", "welcome"):
                app.extra_get(what)
                late_gets += 1
    sch.drain(10.0, 600, until=lambda: all(g[2] != "pending" for a in apps for g in a.get_results))
    world.finish()

    viol = []
    counters = {"closed_sides": 0, "close_mid_protocol": 0, "drops": drv.drops_done, "gets_after_closed": late_gets,
                "unread_backlog_at_closed": backlog}
    sets = {"states_at_close": [], "verdicts": []}
    claims = world.nameplate_claims()
    msides = world.mailbox_sides()
    for app in apps:
        def wit():
            return {"events": events_view(app), "calls": app.calls[:30], "boss_inputs": app.binputs[:60],
                    "states_at_close": states_at_close.get(app.name), "end": end,
                    "machines_now": machine_states(app), "netlog_tail": world.reactor.netlog[-25:],
                    "cfg": {k: v for k, v in cfg.items() if not k.startswith("plan")}, "spec": spec}
        side = app.w._boss._side
        if not app.closed:
            viol.append({"key": "C08/close-never-completes/" + machine_states(app).replace(" ", ","),
                         "msg": "%s: close() called at step %s but no closed notification within 300 virtual s of stable connectivity (%s)" % (
                             app.name, states_at_close.get(app.name), end), "witness": wit()})
            continue
        counters["closed_sides"] += 1
        results = app.close_results
        expected_n = app.close_calls if app.api == "deferred" else 1
        if len(results) != expected_n or len(set(results)) != 1:
            viol.append({"key": "C08/closed-notification-count", "msg": "%s (%s): %d close() calls, notifications %r" % (
                app.name, app.api, app.close_calls, results), "witness": wit()})
        verdict = results[0]
        model, mstep = model_verdict(app)
        sets["verdicts"].append(verdict)
        counters["verdict_" + verdict.replace("Error", "") if verdict != "ServerError" else "verdict_ServerError"] = 1
        if verdict in ("WelcomeError",):
            counters["verdict_WelcomeError"] = 1
        internal = False
        if model == "<internal error>":
            if verdict not in ("ServerConnectionError",):
                internal = True
                detail = verdict
                if verdict == "NoTransition" and MON.notrans:
                    detail = "NoTransition/%s.%s/%s" % MON.notrans[0]
                viol.append({"key": "C08/verdict/internal-error/" + detail, "msg": "%s closed with %s via Boss.error (%s)" % (app.name, verdict, detail),
                             "witness": wit()})
        elif model != verdict:
            viol.append({"key": "C08/verdict/%s-instead-of-%s" % (verdict, model),
                         "msg": "%s: closed with %r but the first terminal event (step %s) implies %r" % (app.name, verdict, mstep, model),
                         "witness": wit()})
        # ground truth: a welcome{error} or a server `error` the client processed must reach the Boss
        for (stp, msg) in app.inbound:
            if msg.get("type") == "welcome" and isinstance(msg.get("welcome"), dict) and "error" in msg["welcome"]:
                if not any(i == "rx_unwelcome" and st2 == stp for (st2, _, i) in app.binputs):
                    viol.append({"key": "C08/welcome-error-ignored", "msg": "%s processed a welcome with error %r at step %d but the Boss never got rx_unwelcome; verdict %s" % (
                        app.name, msg["welcome"]["error"], stp, verdict), "witness": wit()})
                    break
            if msg.get("type") == "error":
                if not any(i == "rx_error" and st2 == stp for (st2, _, i) in app.binputs):
                    viol.append({"key": "C08/server-error-ignored", "msg": "%s processed server error %r at step %d but the Boss never got rx_error" % (app.name, msg.get("error"), stp),
                                 "witness": wit()})
                    break
        # ground truth of the Boss inputs themselves
        inputs = [i for (_, _, i) in app.binputs]
        mismatch = kind == "mismatch"
        mixed = kind == "crowded" and bool(spec.get("mismatch"))      # (A and the third side share a code, B has another: either may happen)
        if "scared" in inputs and not mismatch and not mixed:
            viol.append({"key": "C08/scared-without-cause", "msg": "%s got scared with matching codes and an honest server" % app.name,
                         "witness": wit()})
        if "happy" in inputs and mismatch and not mixed:
            viol.append({"key": "C08/happy-with-wrong-code", "msg": app.name, "witness": wit()})
        if "rx_error" in inputs and not any(s == side for (_, s, _, _) in world.server_errors):
            viol.append({"key": "C08/rx_error-without-server-error", "msg": app.name, "witness": wit()})
        # nothing delivered after the closed notification
        kinds = app.kinds()
        after = [k for k in kinds[kinds.index("closed"):] if k != "closed" and not k.endswith("-err")]
        if after:
            viol.append({"key": "C08/event-after-closed/" + after[0], "msg": "%s: %s" % (app.name, kinds), "witness": wit()})
        cstep = [st for (st, k, v) in app.ev if k == "closed"]
        for g in app.get_results:
            if cstep and g[0] > cstep[0] and g[2] == "ok":
                viol.append({"key": "C08/delivered-after-closed/get_" + g[1],
                             "msg": "%s: get_%s() issued at step %d, after the closed notification (step %d), handed out %r" % (
                                 app.name, g[1], g[0], cstep[0], g[3] if len(g) > 3 else None), "witness": wit()})
                break
            if cstep and g[0] > cstep[0] and g[2] == "pending":
                viol.append({"key": "C08/get-hangs-after-closed/get_" + g[1], "msg": "%s: get_%s() issued after the closed notification neither fired nor failed" % (app.name, g[1]),
                             "witness": wit()})
                break
        if internal:
            continue      # the Terminator never runs after Boss.error: leftovers are consequences of the root cause above
        # server resources
        np_known = app.w._boss._N._nameplate
        for (name, s, claimed) in claims:
            if s == side and claimed and name == np_known:
                viol.append({"key": "C08/nameplate-still-claimed", "msg": "%s closed (%s) but the server still shows nameplate %s claimed by it; machines at close(): %s" % (
                    app.name, verdict, name, states_at_close.get(app.name)), "witness": wit()})
        mb_known = app.w._boss._M._mailbox
        # only a refusal the client cannot do anything about (the mailbox was crowded by a third side)
        # excuses a mailbox that stays open; any other error reply to `close` is the client's doing
        refused = any(sd == side and orig == "close" and err == "crowded" for (_, sd, err, orig) in world.server_errors)
        for (_, sd, err, orig) in world.server_errors:
            if sd == side and orig in ("close", "release") and err != "crowded":
                viol.append({"key": "C08/server-rejected-%s/%s" % (orig, err.replace(" ", "-")[:40]),
                             "msg": "%s: the server answered our %s with error %r" % (app.name, orig, err), "witness": wit()})
                break
        if refused and "scared" in inputs:
            counters["scared_sides_whose_close_the_server_refused"] = counters.get("scared_sides_whose_close_the_server_refused", 0) + 1
        if mb_known is not None and refused:
            counters["server_refused_close"] = counters.get("server_refused_close", 0) + 1
        if mb_known is not None and not refused:
            for (mid, s, opened, mood) in msides:
                if s == side and mid == mb_known and opened:
                    viol.append({"key": "C08/mailbox-still-open", "msg": "%s closed (%s) but its mailbox side is still open at the server; machines at close(): %s" % (
                        app.name, verdict, states_at_close.get(app.name)), "witness": wit()})
            closes = [m for (cid, s, m) in world.server_cmds if s == side and m.get("type") == "close"]
            want = MOOD.get(verdict)
            if want is not None and (not closes or closes[-1].get("mood") != want):
                viol.append({"key": "C08/mood/%s-for-%s" % (closes[-1].get("mood") if closes else "no-close-sent", verdict),
                             "msg": "%s closed with %s; close commands seen by the server: %s" % (app.name, verdict, [c.get("mood") for c in closes]),
                             "witness": wit()})
        if client_link(world, app.w) is not None:
            viol.append({"key": "C08/server-connection-still-up", "msg": "%s closed but its mailbox connection is still connected" % app.name,
                         "witness": wit()})
        if rc_of(app.w)._connector.running:
            viol.append({"key": "C08/clientservice-still-running", "msg": app.name, "witness": wit()})
        st = states_at_close.get(app.name)
        if st:
            sets["states_at_close"].append(st[0])
            if not protocol_finished or "B=S2_happy" not in st[0]:
                counters["close_mid_protocol"] += 1
    nontrivial = None
    if states_at_close:
        nontrivial = [kind, sorted((n, s[0]) for n, s in states_at_close.items()),
                      sorted(a.close_results[0] for a in apps if a.closed), drv.drops_done, spec.get("mode", "tcp")]
    counters["notrans_seen"] = len(MON.notrans)
    counters["kind_" + kind] = 1
    return {"violations": viol, "nontrivial": nontrivial, "counters": counters, "sets": sets,
            "sample": {"spec": spec, "states_at_close": states_at_close,
                       "verdicts": {a.name: a.close_results for a in apps},
                       "A_boss_inputs": [i for (_, _, i) in drv.a.binputs],
                       "A_events": drv.a.kinds(), "server_cmds_A": [m.get("type") for (c, s, m) in world.server_cmds if s == drv.a.w._boss._side],
                       "server_tables_after": {"claims": claims, "mailbox_sides": msides}}}
