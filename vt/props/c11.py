"""C11 - Dilation peers agree on roles, use one connection at a time, re-converge."""
from ..env import World, RELAY_PORT
from ..sched import Scheduler
from ..simnet import unwrap
from ..dilation_work import DilatedPair, ScriptDriver
from ..mailbox_work import trace_digest
from ..monitors import MON, state_of

from twisted.internet import error
from twisted.python import failure
from wormhole._dilation.connection import DilatedConnectionProtocol
from wormhole._dilation.roles import LEADER, FOLLOWER

PID = "C11"
LEVEL = "exploration"
RULE = ("two real dilated wormholes; w.dilate() on each side at a random point (before the key, after "
        "versions, long after); 1-3 local addresses (some refused / never answering), relay or not; all "
        "candidate connections progress byte by byte interleaved with the mailbox-carried "
        "please/hints/reconnect/reconnecting; faults on the selected link: cut seen by both, by the leader "
        "first, by the follower first (other end blackholed so only pings/RECONNECT reveal it), a second "
        "fault during the reconnect, cuts of non-selected candidates; state probes after every scheduler "
        "step. Non-trivial = both sides reached CONNECTED at least once and a fault hit; distinct = "
        "decision traces.")
ASSUMPTIONS = ["Noise stand-in", "convergence bound: 600 virtual seconds after the last fault (ping interval 5 s)",
               "mailbox control messages are FIFO per sender (plain real server)"]
FLOORS = {"quick": {"pairs_with_sides_that_are_not_stock_hex": 15, "probes": 100000, "connected_cases": 250, "faults": 300, "reconverged": 200, "bulk_cases": 30, "bystander_pairs": 80, "one_sided_relay_behind_nat_reconverged": 12},
          "thorough": {"pairs_with_sides_that_are_not_stock_hex": 500, "probes": 3000000, "connected_cases": 8000, "faults": 7000, "reconverged": 7000, "bulk_cases": 900, "bystander_pairs": 2000, "one_sided_relay_behind_nat_reconverged": 400}}


def cases(tier, seed, prep=None):
    n = 330 if tier == "quick" else 10000
    out = [{"seed": seed * 1000003 + 1100000 + i, "relay": i % 4 == 1, "nfaults": [0, 1, 1, 2, 3][i % 5]} for i in range(n)]
    # long-lived sessions: many generations
    out += [{"seed": seed * 1000003 + 1150000 + i, "relay": i % 4 == 1, "nfaults": [6, 10, 16][i % 3]} for i in range(15 if tier == "quick" else 400)]
    # a path that delivers the start of every connection byte by byte (a slow serial-like hop, a re-chunking relay):
    # every cut point of the relay answer, the prologues and the handshake, on first connections and reconnections
    out += [{"seed": seed * 1000003 + 1170000 + i, "relay": i % 3 == 1, "nfaults": [0, 1, 2][i % 3], "bytewise": True} for i in range(45 if tier == "quick" else 1500)]
    # an application keeps streaming data while the link dies silently (a dead peer acknowledges nothing: the
    # kernel's send buffer fills up and stays full)
    out += [{"seed": seed * 1000003 + 1160000 + i, "relay": False, "nfaults": [1, 1, 2][i % 3], "bulk": "AB"[i % 2]} for i in range(40 if tier == "quick" else 1200)]
    # only one side is configured with a transit relay and neither side can be dialled directly (both behind NAT): every
    # generation depends on the peer's relay hint being used again
    out += [{"seed": seed * 1000003 + 1180000 + i, "relay": True, "relay_sides": [(True, False), (False, True)][i % 2], "nat_both": True,
             "nfaults": [1, 2, 3, 1][i % 4]} for i in range(32 if tier == "quick" else 900)]
    # peers whose dilation side is not the stock lower-case hex (another implementation): sides are opaque strings, the
    # higher one leads, and both ends must come to the same answer
    odd = [("a100000000000000", "AB00000000000000"), ("AB00000000000000", "a100000000000000"), ("Zebra", "apple"), ("apple", "Zebra"),
           ("0a0a0a0a0a0a0a0a", "0A0A0A0A0A0A0A0B"), ("\u00df-side", "SS-side"), ("side", "Side "), ("b", "B0")]
    out += [{"seed": seed * 1000003 + 1190000 + i, "relay": i % 4 == 1, "nfaults": [0, 1, 2][i % 3], "sides": list(odd[i % len(odd)])} for i in range(24 if tier == "quick" else 800)]
    return out


_ORIG_MAKE_SIDE = []


def run_case(spec):
    from wormhole._dilation import manager as _m0
    if not _ORIG_MAKE_SIDE:
        _ORIG_MAKE_SIDE.append(_m0.make_side)
    _m0.make_side = _ORIG_MAKE_SIDE[0]          # (a substitution left over from an earlier case of this worker, if any)
    world = World(spec["seed"], relay=spec["relay"])
    rng = world.work_rng
    r = world.reactor
    world.local_addresses = ["127.0.0.1"] + rng.sample(["10.0.0.1", "10.0.0.2", "10.0.0.3"], rng.randint(1, 3))
    bad_hosts = [h for h in world.local_addresses[2:] if rng.random() < 0.5]
    for h in bad_hosts:
        (r.refuse if rng.random() < 0.5 else r.unroutable).add(h)
    if spec.get("sides"):
        # the first two dilation sides made in this case (A's, then B's: the driver's listen() dilates in that order) are the
        # given ones; the substitution undoes itself after the second
        from wormhole._dilation import manager as _m
        orig_make_side, todo = _m.make_side, list(spec["sides"])

        def make_side():
            s_ = todo.pop(0)
            if not todo:
                _m.make_side = orig_make_side
            return s_
        _m.make_side = make_side
    dp = DilatedPair(world, relay=spec.get("relay_sides", spec["relay"]), ping_interval=5.0, dilate_now=False,
                     no_listen=(rng.random() < 0.15, False) if not spec.get("nat_both") else (True, True))
    drv = ScriptDriver(dp, rng, names=("p0",), max_opens=1, max_writes=6, sizes=(1, 100), late_listen=0.0, close_prob=0.0)
    drv.budget["open"] = {"A": 0, "B": 0}
    dilate_gate = {n: rng.choice(["now", "key", "versions", "late"]) for n in "AB"}
    started = {"A": False, "B": False}
    base_actions = drv.actions

    def actions():
        acts = []
        for n in "AB":
            if not started[n]:
                app = dp.apps[n]
                kinds = app.kinds()
                ok = (dilate_gate[n] == "now" or (dilate_gate[n] == "key" and "key" in kinds) or
                      (dilate_gate[n] == "versions" and "versions" in kinds) or (dilate_gate[n] == "late" and world.step > 150))
                if ok:
                    def go(n=n):
                        started[n] = True
                        dp.dilate(n)
                        if n == "A":
                            drv.listen("A", "p0")
                        else:
                            drv.budget["open"]["B"] = 1
                    acts.append((("app", n, "dilate"), go))
        if all(started.values()):
            acts += base_actions()
        return acts
    drv.actions = actions
    drv.drain_actions = actions
    drv.pending_listen = {"A": [], "B": []}
    drv.factories = {"A": {}, "B": {}}
    sch = Scheduler(world, drv, strategy=rng.choice(["random", "pct", "netfirst", "timersfirst"]), chunking="mixed" if not spec.get("bytewise") else "bytewise-start",
                    tiny_budget=rng.choice([100, 1000]))
    by = None
    if spec["seed"] % 4 == 2 and not spec.get("bulk"):
        # a second, undisturbed pair in the same process dilates at some other moment: whatever the first pair
        # does while selecting, reconnecting or stopping connectors must leave it alone
        by = DilatedPair(world, ping_interval=5.0, dilate_now=False, code="78-by-stander")
        for n_ in "AB":
            sch.faults.append((rng.randint(0, 260), (lambda n_=n_: by.dilate(n_)), "bystander %s dilates" % n_))
        sch.faults.sort(key=lambda f: f[0])
    bulk = {"started": False, "obj": None}
    if spec.get("bulk"):
        r.blackhole_sndbuf = 2 ** 18
    probes = {"n": 0, "viol": [], "selected_at": {}, "connected_once": False, "max_live_selected": 0,
              "candidate_cut_this_generation": False, "far_end_gone": 0}

    def relay_peer(proto_end):
        """the DilatedConnectionProtocol at the far side of proto_end (directly or through the relay)"""
        link = proto_end.link
        other = unwrap(link.ends[1 - proto_end.end].protocol)
        if isinstance(other, DilatedConnectionProtocol):
            return other
        buddy = getattr(other, "_buddy", None)
        client = getattr(buddy, "_client", None) if buddy is not None else None
        if client is not None and getattr(client, "transport", None) is not None:
            far = client.transport
            return unwrap(far.link.ends[1 - far.end].protocol)
        return None

    def hook():
        probes["n"] += 1
        ra, rb = dp.role("A"), dp.role("B")
        if ra is not None and rb is not None and {ra, rb} != {LEADER, FOLLOWER}:
            probes["viol"].append(("C11/roles-not-complementary", "A=%s B=%s" % (ra, rb)))
        if dp.both_connected():
            probes["connected_once"] = True
            probes["candidate_cut_this_generation"] = False
            if spec.get("bulk") and not bulk["started"]:
                from .c16 import Bulk
                side = spec["bulk"]
                live = [p for p in drv.protos(side) if drv.is_open(p)]
                if not live and not bulk.get("asked"):
                    other = "B" if side == "A" else "A"
                    names = sorted(drv.listening[other])
                    if names:
                        bulk["asked"] = True
                        drv.open(side, names[0])
                if live:
                    bulk["started"] = True
                    bulk["obj"] = Bulk(live[0].transport, 200 * 1000000)
        for n in "AB":
            ends = dp.selected_ends(n)
            probes["max_live_selected"] = max(probes["max_live_selected"], len(ends))
            if len(ends) > 1:
                probes["viol"].append(("C11/several-live-selected-connections", "%s has %d live selected connections at step %d" % (n, len(ends), world.step)))
            for e in ends:
                p = unwrap(e.protocol)
                if p not in probes["selected_at"]:
                    probes["selected_at"][p] = world.step
                    if dp.role(n) is FOLLOWER:
                        far = relay_peer(e)
                        if far is None:
                            # the far side (or the relay's pairing) is already gone: the Leader's confirmation was
                            # sent while it lived; nothing can be read off it any more
                            probes["far_end_gone"] += 1
                        elif state_of(far) != "selected" or dp.party_of(far) == n:
                            probes["viol"].append(("C11/follower-uses-unconfirmed-connection",
                                                   "%s (follower) selected a connection whose far end is %s in state %s" % (
                                                       n, type(far).__name__, state_of(far) if far is not None else None)))
                        elif probes["selected_at"].get(far, world.step) > world.step:
                            probes["viol"].append(("C11/follower-selected-before-leader", ""))
    sch.hook = hook
    faults = {"done": 0, "skipped": 0, "kinds": [], "retries": 0}

    def fault(kind):
        link = dp.selected_link()
        if kind == "candidate":
            # the property's premise: a non-selected candidate may be lost "as long as one candidate survives",
            # so at most one candidate is cut per generation and only while another one is alive
            cands = [l for l in dp.l2_links() if l is not link and all(e.connected for e in l.ends)]
            live = [l for l in dp.l2_links() if all(e.connected for e in l.ends)]
            # (through the transit relay one candidate is two links, one leg per side)
            legs = [l for l in live if l.tags.get("port") == 4001]
            n_candidates = (len(live) - len(legs)) + len(legs) // 2
            if cands and n_candidates > 1 and not probes["candidate_cut_this_generation"]:
                r.cut(rng.choice(cands))
                probes["candidate_cut_this_generation"] = True
                faults["done"] += 1
                faults["kinds"].append(kind)
            else:
                faults["skipped"] += 1
            return
        if link is None:
            # through the relay there is no single link with both ends selected: cut a selected end's link
            ends = dp.selected_ends("A") + dp.selected_ends("B")
            if not ends:
                if spec["nfaults"] >= 6 and faults["retries"] < 400:
                    # long-lived sessions: wait for the next generation instead of skipping the fault
                    faults["retries"] += 1
                    sch.faults.append((world.step + rng.randint(5, 25), lambda: fault(kind), "fault (retry)"))
                    sch.faults.sort(key=lambda f: f[0])
                    return
                faults["skipped"] += 1
                return
            link = ends[0].link
        faults["done"] += 1
        faults["kinds"].append(kind)
        if kind == "both":
            r.cut(link)
            return
        lead = dp.leader()
        who = lead if kind == "leader-first" else ("B" if lead == "A" else "A")
        r.blackhole(link)
        for e in link.ends:
            if dp.party_of(unwrap(e.protocol)) == who and e.connected:
                e.outbuf.clear()
                e._connection_lost(failure.Failure(error.ConnectionLost()))
    last = 0
    for i in range(spec["nfaults"]):
        at = rng.randint(120, 700) if i == 0 else last + rng.choice([3, 10, 40, 150])
        last = at
        sch.faults.append((at, (lambda k=rng.choice(["both", "both", "leader-first", "follower-first", "candidate"]): fault(k)), "fault"))
    sch.faults.sort(key=lambda f: f[0])
    sch.run(1200 + (150 * spec["nfaults"] if spec["nfaults"] >= 6 else 0))
    end = sch.drain(600.0, 60000, until=lambda: dp.both_connected() and all(started.values()) and (by is None or by.both_connected()))
    if end == "steps":
        # the step cap, not the virtual-time bound, ended the drain: no verdict on this case
        world.finish()
        return {"inconclusive": "step cap reached in the final drain", "violations": []}
    viol = []

    def wit():
        return {"spec": spec, "roles": {n: str(dp.role(n)) for n in "AB"}, "states": {n: dp.mstate(n) for n in "AB"},
                "dilate_gate": dilate_gate, "addresses": world.local_addresses, "bad_hosts": bad_hosts,
                "faults": faults, "drain_end": end, "t": r.seconds(),
                "netlog_tail": [x for x in r.netlog if x[0] in ("cut", "blackhole", "lost", "dial", "refused", "connected")][-25:],
                "l2": [(l.id, [(dp.party_of(unwrap(e.protocol)), state_of(unwrap(e.protocol)) if isinstance(unwrap(e.protocol), DilatedConnectionProtocol) else type(unwrap(e.protocol)).__name__, bool(e.connected)) for e in l.ends]) for l in dp.l2_links()][-8:]}
    seen = set()
    for (k, m) in probes["viol"]:
        if k not in seen:
            seen.add(k)
            viol.append({"key": k, "msg": m, "witness": wit()})
    converged = dp.both_connected()
    same_link = False
    if converged:
        ea, eb = dp.selected_ends("A"), dp.selected_ends("B")
        if len(ea) == 1 and len(eb) == 1:
            if ea[0].link is eb[0].link:
                same_link = True
            else:
                far = relay_peer(ea[0])
                same_link = far is unwrap(eb[0].protocol)
        if not same_link:
            viol.append({"key": "C11/connected-on-different-links", "msg": "both Managers CONNECTED but their selected connections are not the two ends of one link",
                         "witness": wit()})
    if by is not None and not by.both_connected() and by.dw["A"] is not None and by.dw["B"] is not None:
        viol.append({"key": "C11/bystander-pair-not-connected/%s-%s" % (by.mstate("A"), by.mstate("B")),
                     "msg": "a second pair in the same process, never disturbed by the harness, is %s/%s at the end" % (by.mstate("A"), by.mstate("B")), "witness": wit()})
    if converged:
        pass
    elif all(started.values()):
        viol.append({"key": "C11/no-reconvergence/%s-%s" % (dp.mstate("A"), dp.mstate("B")),
                     "msg": "600 virtual s after the last fault the Managers are %s/%s (roles %s/%s)" % (dp.mstate("A"), dp.mstate("B"), dp.role("A"), dp.role("B")),
                     "witness": wit()})
    if bulk["obj"] is not None:
        bulk["obj"].stopProducing()
    dp.a.close()
    dp.b.close()
    sch.hook = None
    sch.drain(120.0, 10000, until=lambda: dp.a.closed and dp.b.closed)
    world.finish()
    nontrivial = trace_digest(sch) if (probes["connected_once"] and (faults["done"] or spec["nfaults"] == 0)) else None
    return {"violations": viol, "nontrivial": nontrivial,
            "counters": {"probes": probes["n"], "pairs_with_sides_that_are_not_stock_hex": int(bool(spec.get("sides")) and bool(probes["connected_once"])), "connected_cases": int(probes["connected_once"]), "faults": faults["done"],
                         "faults_skipped": faults["skipped"], "reconverged": int(converged and same_link),
                         "l2_links": len(dp.l2_links()), "relay_cases": int(spec["relay"]), "one_sided_relay_behind_nat_reconverged": int(bool(spec.get("nat_both")) and faults["done"] > 0 and converged and same_link), "bulk_cases": int(bulk["started"]), "bystander_pairs": int(by is not None), "bytewise_cases": int(bool(spec.get("bytewise"))),
                         "bulk_bytes": bulk["obj"].written if bulk["obj"] else 0, "far_end_gone_at_probe": probes["far_end_gone"],
                         **{"fault_" + k: faults["kinds"].count(k) for k in set(faults["kinds"])},
                         "notrans_seen": len(MON.notrans)},
            "sets": {"dilation_notrans": ["%s.%s/%s" % k for k in set(MON.notrans)],
                     "manager_rows": sorted({"%s/%s" % (k[1], k[2]) for k in MON.cov if k[0] == "Manager"})},
            "sample": {"spec": spec, "dilate_gate": dilate_gate, "roles": {n: str(dp.role(n)) for n in "AB"},
                       "faults": faults, "converged": converged, "l2_links": len(dp.l2_links()), "t_end": r.seconds()}}
