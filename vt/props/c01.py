"""C01 - the session key is bound to the wormhole code (after NFC) and the appid."""
import unicodedata

from ..env import World
from ..sched import Scheduler
from ..adversary import ReorderDup
from ..mailbox_work import TwoParty, make_plan, STRATS, trace_digest, events_view, b2s
from ..monitors import MON

PID = "C01"
LEVEL = "exploration"
RULE = ("pairs of real wormholes through the real server (bridging server when appids differ so the "
        "mismatch really meets in one mailbox); code pairs by class: identical, NFC/NFD spellings of "
        "the same text, one char changed, case changed, extra/missing word, compatibility forms NFC "
        "does not unify, different nameplate; entry by set_code, allocate+set, input_code with the "
        "words typed late (peer PAKE first); random delivery order; 0-3 messages each way; derive_key "
        "sampled over random unicode purposes and lengths; in 40% of the cases a second, unrelated matching "
        "pair runs in the same process and must end happy with its own key. Non-trivial = the two sides actually "
        "exchanged PAKE messages (or, for never-met, both closed Lonely); distinct = (class, entry "
        "mode, codes, appids).")
ASSUMPTIONS = ["codes <= 60 chars, <= 6 words; BMP plus a few astral characters"]
FLOORS = {"quick": {"class_whitespace": 15, "bystander_pairs_with_mismatching_codes": 10, "match_cases": 100, "mismatch_cases": 150, "pake_before_code": 10, "derive_checks": 1000, "bystander_pairs": 100, "derive_in_key_notification": 80, "derive_after_close": 500, "mailbox_connections_lost": 100},
          "thorough": {"class_whitespace": 300, "bystander_pairs_with_mismatching_codes": 300, "match_cases": 4000, "mismatch_cases": 6000, "pake_before_code": 400, "derive_checks": 40000, "bystander_pairs": 4000, "derive_in_key_notification": 3000, "derive_after_close": 20000, "mailbox_connections_lost": 4000}}
CLASSES = ["same", "same", "nfc", "nfc", "onechar", "case", "extraword", "missingword", "compat",
           "nameplate", "appid", "appid+same-nfc", "nameplate-spelling", "whitespace"]
WORDS = ["café", "naïve", "purple", "sausages", "한글", "éclair", "ångström", "ǆemal",
         "ök", "x", "alpha", "Zulu", "ﬁsh", "𝔘nicode", "déjà", "vu", "ñandú", "Å", "ｆｕｌｌ", "ℌ"]


def cases(tier, seed, prep=None):
    n = 420 if tier == "quick" else 16000
    return [{"kind": CLASSES[i % len(CLASSES)], "seed": seed * 1000003 + 100000 + i} for i in range(n)]


def nfc(s):
    return unicodedata.normalize("NFC", s)


def make_codes(rng, kind):
    np_ = str(rng.randint(1, 999))
    words = rng.sample(WORDS, rng.randint(1, 5))
    a = np_ + "-" + "-".join(words)
    b = a
    if kind in ("same", "appid"):
        pass
    elif kind in ("nfc", "appid+same-nfc"):
        form_a, form_b = rng.choice([("NFC", "NFD"), ("NFD", "NFC"), ("NFD", "NFD"), ("NFC", "NFC")])
        a = unicodedata.normalize(form_a, a)
        b = unicodedata.normalize(form_b, b)
    elif kind == "onechar":
        w = list(words)
        i = rng.randrange(len(w))
        j = rng.randrange(len(w[i]))
        repl = rng.choice("abcdefgéñ한")
        w[i] = w[i][:j] + (repl if w[i][j] != repl else "q") + w[i][j + 1:]
        b = np_ + "-" + "-".join(w)
    elif kind == "case":
        b = np_ + "-" + "-".join(w.swapcase() for w in words)
        if nfc(b) == nfc(a):
            b = b + "X"
    elif kind == "extraword":
        b = a + "-" + rng.choice(WORDS)
    elif kind == "missingword":
        if len(words) > 1:
            b = np_ + "-" + "-".join(words[:-1])
        else:
            b = a + "-"
    elif kind == "compat":
        # NFKC-equivalent but not NFC-equivalent spellings must NOT agree
        a = np_ + "-" + "-".join(words + ["ﬁsh", "ｆｕｌｌ"])
        b = np_ + "-" + "-".join(words + ["fish", "full"])
    elif kind == "whitespace":
        # white space other than U+0020 is a legal part of a code: a code with it and a code without it are two codes,
        # and the same code given on both sides (set_code or typed) is one code
        ws = rng.choice(["\t", "\u00a0", "\u2003", "\u3000", "\x0b", "\u2028"])
        how = rng.choice(["b-trailing", "a-trailing", "b-leading", "both-trailing", "both-leading", "both-inner"])
        if how == "b-trailing":
            b = a + ws
        elif how == "a-trailing":
            a = a + ws
        elif how == "b-leading":
            b = np_ + "-" + ws + "-".join(words)
        elif how == "both-trailing":
            a = b = a + ws
        elif how == "both-leading":
            a = b = np_ + "-" + ws + "-".join(words)
        else:
            a = b = np_ + "-" + "-".join(words) + ws + "x"
    elif kind == "nameplate":
        b = str(int(np_) + 1) + "-" + "-".join(words)
    elif kind == "nameplate-spelling":
        # the same number written differently is another code (and another channel at the server)
        how = rng.choice(["zero", "zeros", "fullwidth", "arabic-indic", "zero+fullwidth"])
        fw = lambda t: "".join(chr(0xFF10 + int(c)) for c in t)
        ai = lambda t: "".join(chr(0x0660 + int(c)) for c in t)
        alt = {"zero": "0" + np_, "zeros": "000" + np_, "fullwidth": fw(np_), "arabic-indic": ai(np_), "zero+fullwidth": "0" + fw(np_)}[how]
        if rng.random() < 0.5:
            a = alt + "-" + "-".join(words)
        else:
            b = alt + "-" + "-".join(words)
    return a, b


def run_case(spec):
    world = World(spec["seed"])
    rng = world.work_rng
    kind = spec["kind"]
    code_a, code_b = make_codes(rng, kind)
    appid_a = rng.choice(["vt.app", "lothar.com/wormhole/text-or-file-xfer", "ünï.app"])
    appid_b = appid_a
    if kind.startswith("appid"):
        appid_b = appid_a + rng.choice(["2", " ", "/x"])
        world.bridge_appids = True
    expect_match = nfc(code_a) == nfc(code_b) and appid_a == appid_b
    met = code_a.split("-")[0] == code_b.split("-")[0]
    b_mode = rng.choice(["set", "set", "input"])
    cfg = {"a_code": "set", "b_code": b_mode, "code": code_a, "code_b": code_b,
           "appid_a": appid_a, "appid_b": appid_b,
           "api_a": rng.choice(["deferred", "delegate"]), "api_b": rng.choice(["deferred", "delegate"]),
           "versions_a": {"v": "A", "n": rng.randint(0, 9)}, "versions_b": {"v": "B"},
           "plan_a": make_plan(rng, "A", rng.randint(0, 3), 50), "plan_b": make_plan(rng, "B", rng.randint(0, 3), 50)}
    dilated = spec["seed"] % 5 == 4
    if dilated:
        # Dilation requested on both wormholes; dilate() is called early on one or both (the key exchange, the
        # verdicts and close() must be the same with it)
        cfg["dilation"] = True
        cfg["api_a"] = cfg["api_b"] = "deferred"
    drv = TwoParty(world, cfg)
    for app in (drv.a, drv.b):
        if rng.random() < 0.5:
            app.derive_on_key = "vt/derived-in-the-key-notification"
    if dilated:
        for app in rng.choice([(drv.a,), (drv.b,), (drv.a, drv.b)]):
            try:
                app.w.dilate()
            except Exception as e:
                world.escapes.append((world.step, "app", "dilate()", type(e).__name__, repr(e)[:200], ""))
    # a second, unrelated pair living in the same process (same reactor, same server): its session must be
    # unaffected by, and must not affect, the pair under test
    by = None
    by_mismatch = False
    if spec.get("bystander", (spec["seed"] % 5) < 2):
        by_np = str(int(code_a.split("-")[0]) + 1000)
        cfg2 = {"a_code": "set", "b_code": "set", "code": by_np + "-by-stander", "appid_a": appid_a, "appid_b": appid_a,
                "api_a": "deferred", "api_b": rng.choice(["deferred", "delegate"]),
                "versions_a": {"v": "A2"}, "versions_b": {"v": "B2"},
                "plan_a": make_plan(rng, "A2", rng.randint(1, 3), 50), "plan_b": make_plan(rng, "B2", rng.randint(1, 3), 50)}
        # one bystander pair in six has codes that do NOT match: two failing / one failing and one succeeding key
        # exchange side by side must not leak into each other either
        by_mismatch = spec["seed"] % 15 == 0
        if by_mismatch:
            cfg2["code_b"] = by_np + "-by-standex"
        by = TwoParty(world, cfg2)
        by.a.name, by.b.name = "A2", "B2"
    nokey = []
    for app in (drv.a, drv.b):
        try:
            app.w.derive_key("early", 16)
            nokey.append("no exception")
        except Exception as e:
            nokey.append(type(e).__name__)
    late_words = b_mode == "input" and rng.random() < 0.7
    if late_words:
        # hold back B's words until A's PAKE has been delivered to B (Key S00 -> S01 -> S11)
        base = drv.actions

        def actions():
            acts = base()
            got_pake = any(m.get("type") == "message" and m.get("phase") == "pake" and m.get("side") != drv.b.w._boss._side
                           for (_, m) in drv.b.inbound)
            if not got_pake:
                acts = [a for a in acts if a[0] != ("app", "B.choose_words")]
            return acts
        drv.actions = actions
        drv.drain_actions = actions
    if rng.random() < 0.6:
        world.adversary = ReorderDup(world, p_dup=rng.choice([0.0, 0.2]))

    class Both:
        def actions(self):
            acts = list(drv.actions())
            if by is not None:
                acts += [((k[0], "2:" + str(k[1])) + tuple(k[2:]), f) for (k, f) in by.actions()]
            return acts
        drain_actions = actions
    sch = Scheduler(world, Both(), strategy=rng.choice(STRATS), chunking="whole")
    flaky = spec["seed"] % 4 == 1
    if flaky:
        # the mailbox connection of one or both sides is lost (and comes back) in the middle of the key exchange, possibly
        # with several messages of that side still unacknowledged: the verdict must not depend on it
        for _ in range(rng.randint(1, 3)):
            sch.faults.append((rng.randint(3, 160), (lambda who=rng.choice("AB"): drv.drop(who)), "cut mailbox link"))
        sch.faults.sort(key=lambda f: f[0])
        # ... and once right after a side has computed the key (its version message, and whatever the application had already
        # submitted, are on their way and not yet echoed by the server)
        on_key = {n_: rng.random() < 0.6 for n_ in "AB"}

        def hook():
            for n_ in "AB":
                if on_key[n_] and "key" in drv.app(n_).kinds():
                    on_key[n_] = False
                    drv.drop(n_)
        sch.hook = hook

    def by_done():
        if by is not None and by_mismatch:
            return all(any(k.endswith("-err") or k == "closed" for k in app.kinds()) or "scared" in [i for (_, _, i) in app.binputs]
                       for app in (by.a, by.b))
        return by is None or (by.all_delivered() and "versions" in by.a.kinds() and "versions" in by.b.kinds())

    def settled():
        if not by_done():
            return False
        if expect_match:
            return drv.all_delivered() and "versions" in drv.a.kinds() and "versions" in drv.b.kinds()
        if met:
            return all(any(k.endswith("-err") or k == "closed" for k in app.kinds()) or "scared" in [i for (_, _, i) in app.binputs]
                       for app in (drv.a, drv.b))
        return False
    sch.run(900 if not flaky else 2500, until=lambda: settled() and not sch.faults)
    sch.drain(90.0, 5000, until=settled)
    pake_first = late_words and any(i == "got_key" for (_, _, i) in drv.b.binputs) is not None and drv.b_words
    # derive_key sampling (before close)
    derive_checks = 0
    repeated = [0]
    in_callback = [0]
    viol = []

    def wit():
        return {"code_a": code_a, "code_b": code_b, "appid_a": appid_a, "appid_b": appid_b,
                "b_mode": b_mode, "late_words": late_words, "A": events_view(drv.a), "B": events_view(drv.b),
                "A_boss": drv.a.binputs[:30], "B_boss": drv.b.binputs[:30]}
    ka, kb = drv.a.first("key"), drv.b.first("key")
    if expect_match:
        if ka is None or kb is None or "verifier" not in drv.a.kinds() or "verifier" not in drv.b.kinds() \
                or "versions" not in drv.a.kinds() or "versions" not in drv.b.kinds():
            viol.append({"key": "C01/match-but-no-agreement", "msg": "equal codes (after NFC) and appids, but after the drain A=%s B=%s" % (drv.a.kinds(), drv.b.kinds()),
                         "witness": wit()})
        else:
            if ka != kb:
                viol.append({"key": "C01/match-keys-differ", "msg": "keys differ for equal codes", "witness": wit()})
            if drv.a.first("verifier") != drv.b.first("verifier"):
                viol.append({"key": "C01/match-verifiers-differ", "msg": "verifiers differ", "witness": wit()})
            if drv.a.first("versions") != cfg["versions_b"] or drv.b.first("versions") != cfg["versions_a"]:
                viol.append({"key": "C01/versions-wrong", "msg": "%r %r" % (drv.a.first("versions"), drv.b.first("versions")), "witness": wit()})
            if not drv.all_delivered():
                viol.append({"key": "C01/match-messages-missing", "msg": "A got %d/%d, B got %d/%d" % (len(drv.a.msgs), len(drv.b.sent), len(drv.b.msgs), len(drv.a.sent)), "witness": wit()})
            # a sub-key derived from inside the notification that announces the key (either API flavour)
            for app in (drv.a, drv.b):
                got = getattr(app, "derived_on_key", None)
                if got is not None:
                    in_callback[0] += 1
                    if got[0] != "ok":
                        viol.append({"key": "C01/derive_key-unavailable-in-key-notification/" + got[1],
                                     "msg": "%s (%s API): derive_key() called from the key notification raised %s" % (app.name, app.api, got[1]), "witness": wit()})
                    elif got[1] != drv.a.w.derive_key(app.derive_on_key, 32) or got[1] != drv.b.w.derive_key(app.derive_on_key, 32):
                        viol.append({"key": "C01/derive_key-disagrees", "msg": "%s: the sub-key derived inside the key notification differs from later ones" % app.name, "witness": wit()})
            seen = {}
            for _ in range(12):
                purpose = "".join(chr(rng.choice([rng.randint(0x20, 0x7e), rng.randint(0xa0, 0x2fff), rng.randint(0x1f300, 0x1f5ff)]))
                                  for _ in range(rng.choice([1, 2, 8, 64, 255])))
                n = rng.choice([1, 16, 16, 32, 33, 64, 255])
                try:
                    if rng.random() < 0.4:
                        # the same purpose asked for before, with another length (any memoisation must not leak)
                        (drv.a if rng.random() < 0.5 else drv.b).w.derive_key(purpose, rng.choice([1, 8, 16, 300]))
                        repeated[0] += 1
                    da = drv.a.w.derive_key(purpose, n)
                    db = drv.b.w.derive_key(nfc(purpose) if rng.random() < 0.3 else purpose, n)
                except Exception as e:
                    viol.append({"key": "C01/derive_key-raises/" + type(e).__name__, "msg": repr(e)[:200], "witness": wit()})
                    break
                derive_checks += 1
                if da != db or len(da) != n:
                    viol.append({"key": "C01/derive_key-disagrees", "msg": "purpose %r n=%d: %s vs %s" % (purpose, n, da.hex()[:32], db.hex()[:32]), "witness": wit()})
                    break
                if n >= 16:
                    p = nfc(purpose)
                    for (p2, d2) in seen.items():
                        if p2 != p and d2[:16] == da[:16]:
                            viol.append({"key": "C01/derive_key-purpose-collision", "msg": "%r and %r give the same bytes" % (p, p2), "witness": wit()})
                    seen[p] = da
    else:
        for app in (drv.a, drv.b):
            bad = [k for k in app.kinds() if k in ("verifier", "versions", "msg")]
            if bad:
                viol.append({"key": "C01/mismatch-but-delivered-" + bad[0],
                             "msg": "%s received %s although codes/appids differ (%r vs %r, %r vs %r)" % (app.name, bad, code_a, code_b, appid_a, appid_b),
                             "witness": wit()})
        if met and ka is not None and kb is not None and ka == kb:
            viol.append({"key": "C01/mismatch-same-key", "msg": "different codes/appids produced the same key", "witness": wit()})
    if by is not None:
        bw = {"A2": events_view(by.a), "B2": events_view(by.b), "A2_boss": by.a.binputs[:30], "B2_boss": by.b.binputs[:30],
              "pair_under_test": {"class": kind, "A": drv.a.kinds(), "B": drv.b.kinds()}}
        if by_mismatch:
            got_ = [k for app in (by.a, by.b) for k in app.kinds() if k in ("verifier", "versions", "msg")]
            if got_ or not by_done():
                viol.append({"key": "C01/bystander-mismatch-not-refused", "msg": "a second pair with DIFFERENT codes in the same process: A2=%s B2=%s" % (by.a.kinds(), by.b.kinds()),
                             "witness": bw})
        elif not by_done() or by.a.first("verifier") != by.b.first("verifier") or by.a.first("key") != by.b.first("key"):
            viol.append({"key": "C01/bystander-session-disturbed", "msg": "a second pair with equal codes in the same process: A2=%s B2=%s" % (by.a.kinds(), by.b.kinds()),
                         "witness": bw})
        elif ka is not None and by.a.first("key") == ka:
            viol.append({"key": "C01/two-sessions-share-a-key", "msg": "", "witness": bw})
    if nokey != ["NoKeyError", "NoKeyError"]:
        viol.append({"key": "C01/derive_key-before-key/" + str(nokey), "msg": "derive_key before any key: %s" % nokey, "witness": wit()})
    # what derive_key() gives while the session is open, to be compared with what it gives once it is over
    PURPOSE_LATE = "vt/asked-again-after-close"
    before_close = []
    for app in (drv.a, drv.b):
        try:
            before_close.append(("ok", app.w.derive_key(PURPOSE_LATE, 24)))
        except Exception as e:
            before_close.append(("raised", type(e).__name__))
    drv.a.close()
    drv.b.close()
    if by is not None:
        by.a.close()
        by.b.close()
    sch.drain(120.0, 5000, until=lambda: drv.a.closed and drv.b.closed and (by is None or (by.a.closed and by.b.closed)))
    # after the close has completed derive_key() may refuse, but it must not hand out anything else than before
    after_close_n = 0
    for app, before in zip((drv.a, drv.b), before_close):
        if not app.closed:
            continue
        try:
            after = ("ok", app.w.derive_key(PURPOSE_LATE, 24))
        except Exception as e:
            after = ("raised", type(e).__name__)
        after_close_n += 1
        if after[0] == "ok" and after != before:
            viol.append({"key": "C01/derive_key-after-close-differs", "msg": "%s: derive_key(%r, 24) gave %s while open and %s after the close completed" % (
                app.name, PURPOSE_LATE, before[1].hex()[:16] if before[0] == "ok" else before, after[1].hex()[:16]), "witness": wit()})
        elif after[0] == "raised" and after[1] not in ("NoKeyError", "WormholeClosed"):
            viol.append({"key": "C01/derive_key-after-close-raises/" + after[1], "msg": "%s: %s" % (app.name, after), "witness": wit()})
    world.finish()
    if by is not None:
        bv = (by.a.close_results[0] if by.a.closed else "never-closed", by.b.close_results[0] if by.b.closed else "never-closed")
        if by_mismatch:
            if bv != ("WrongPasswordError", "WrongPasswordError") and not any(v["key"].startswith("C01/bystander") for v in viol):
                viol.append({"key": "C01/bystander-mismatch-verdict/%s-%s" % bv, "msg": "mismatching bystander verdicts %s" % (bv,), "witness": bw})
        elif bv != ("happy", "happy") and not any(v["key"].startswith("C01/bystander") for v in viol):
            viol.append({"key": "C01/bystander-session-disturbed", "msg": "bystander verdicts %s" % (bv,), "witness": bw})
    va = drv.a.close_results[0] if drv.a.closed else "never-closed"
    vb = drv.b.close_results[0] if drv.b.closed else "never-closed"
    if expect_match:
        want = ("happy", "happy")
    elif met:
        want = ("WrongPasswordError", "WrongPasswordError")
    else:
        want = ("LonelyError", "LonelyError")
    lonely_ok = 0
    if flaky and not expect_match and met and (va, vb) != want:
        # connection losses are outside this property's quantifier (C09 decides what survives them).  The one thing they may
        # change here: a side that never received anything encrypted from its peer (the peer's version message went down with
        # the peer's connection, see the C09 finding) cannot be scared, and stays lonely
        def heard_ciphertext(app):
            return any(m.get("type") == "message" and m.get("phase") != "pake" and m.get("side") != app.w._boss._side for (_, m) in app.inbound)
        adj = tuple("WrongPasswordError" if (v == "LonelyError" and not heard_ciphertext(app)) else v for v, app in ((va, drv.a), (vb, drv.b)))
        if adj == want:
            lonely_ok = 1
            want = (va, vb)
    if (va, vb) != want:
        viol.append({"key": "C01/verdict/%s-%s-instead-of-%s" % (va, vb, want[0]),
                     "msg": "class %s: close verdicts %s,%s expected %s (codes %r / %r, appids %r / %r)" % (kind, va, vb, want, code_a, code_b, appid_a, appid_b),
                     "witness": wit()})
    pake_rx = sum(1 for app in (drv.a, drv.b) for (_, m) in app.inbound
                  if m.get("type") == "message" and m.get("phase") == "pake" and m.get("side") != app.w._boss._side)
    nontrivial = None
    if (met and pake_rx >= 2) or (not met and (va, vb) == want):
        nontrivial = [kind, b_mode, late_words, code_a, code_b, appid_a, appid_b]
    s01 = int(any(k[1] == "S01" and k[2] == "got_code" for k in MON.cov))   # Key really went S00->S01->S11
    return {"violations": viol, "nontrivial": nontrivial,
            "counters": {"match_cases": int(expect_match), "mismatch_cases": int(not expect_match and met),
                         "never_met_cases": int(not met), "pake_before_code": s01, "derive_checks": derive_checks, "derive_repeated_purpose": repeated[0], "derive_in_key_notification": in_callback[0], "derive_after_close": after_close_n,
                         "class_" + kind: 1, "bystander_pairs": int(by is not None), "bystander_pairs_with_mismatching_codes": int(by is not None and by_mismatch), "dilated_cases": int(dilated),
                         "flaky_link_cases": int(flaky), "flaky_lonely_because_peer_version_never_arrived": lonely_ok, "mailbox_connections_lost": drv.drops_done},
            "sample": {"spec": spec, "code_a": code_a, "code_b": code_b, "appid_a": appid_a, "appid_b": appid_b,
                       "expect_match": expect_match, "b_mode": b_mode, "late_words": late_words,
                       "verdicts": [va, vb], "A": drv.a.kinds(), "B": drv.b.kinds(),
                       "keys_equal": ka == kb if ka and kb else None}}
