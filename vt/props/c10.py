"""C10 - Dilation delivers every record exactly once, in order, across reconnects."""
from ..env import World
from ..sched import Scheduler
from ..dilation_work import RecFactory, DilatedPair, ScriptDriver, stream_check
from ..mailbox_work import trace_digest
from ..monitors import MON

PID = "C10"
LEVEL = "fault_enumeration"
RULE = ("two real dilated wormholes (Noise stand-in) run a random application script - 0-3 subchannel "
        "opens per side over 2 subprotocols, up to 30 writes of 1 B..131 kB (incl. every length around one and two "
        "Noise messages, 65490-65545 and 131010-131070) in both directions of every "
        "subchannel, closes, some operations issued while no connection exists - while the selected L2 "
        "link is killed: cut at a swept scheduler step (every step of the baseline in the thorough tier), "
        "one direction blackholed first (data delivered but acks lost, and the reverse) then cut, loss noticed by "
        "the Leader only / by the Follower only (the other end blackholed), "
        "several kills in a row (during the replay after a reconnect), long-lived sessions with 8-24 kills; in a "
        "quarter of the cases a second, undisturbed dilated pair runs its own script in the same process. TCP chunking down to single bytes "
        "makes kills land mid-frame. Non-trivial = at least one effective kill and one delivered write; "
        "distinct = scheduler decision traces.")
ASSUMPTIONS = ["Noise stand-in (spec-conformant NNpsk0)", "bounded progress: 600 virtual seconds after the last kill"]
FLOORS = {"quick": {"kills": 250, "writes_delivered": 2000, "complete": 300, "app_pauses": 100, "app_resumes_while_offline": 8, "false_factories": 40, "calls_from_inside_protocol_callbacks": 300, "bursts_paused_from_inside_dataReceived": 15},
          "thorough": {"kills": 8000, "writes_delivered": 60000, "complete": 8000, "app_pauses": 3000, "app_resumes_while_offline": 250, "false_factories": 1000, "calls_from_inside_protocol_callbacks": 8000, "bursts_paused_from_inside_dataReceived": 400}}


def cases(tier, seed, prep=None):
    out = []
    q = tier == "quick"
    base = seed * 1000003 + 1000000
    for i in range(140 if q else 3000):
        out.append({"kind": "random", "seed": base + i})
    for i in range(16 if q else 400):
        out.append({"kind": "random", "seed": base + 40000 + i, "nkills": [8, 12, 16, 24][i % 4]})
    # a large backlog written while offline
    for i in range(8 if q else 200):
        out.append({"kind": "random", "seed": base + 90000 + i, "nkills": 2, "offline_burst": [1100, 1500, 2500, 700][i % 4]})
    # receiving applications that pause and later resume their subchannel (also while no connection exists)
    for i in range(80 if q else 2400):
        out.append({"kind": "random", "seed": base + 80000 + i, "pauses": [2, 4, 8][i % 3], "nkills": [None, None, 8][i % 3]})
    # sending applications with a streaming producer that says something when it is told to pause (a "stalled" status
    # line, a flush marker): a write made from inside pauseProducing(), i.e. from inside the write that filled the buffer
    for i in range(60 if q else 1800):
        out.append({"kind": "random", "seed": base + 95000 + i, "pause_writer": True, "nkills": [4, 6, 8][i % 3]})
    for i in range(24 if q else 700):
        out.append({"kind": "burst-pause", "seed": base + 97000 + i, "dir": "AB"[i % 2], "n": [2, 3, 5, 9][i % 4], "then_close": i % 3 == 0})
    bases = range(3) if q else range(20)
    for b in bases:
        for k in range(60, 420, 6 if q else 1):
            out.append({"kind": "sweep", "seed": base + 50000 + b, "kill_at": k, "how": ["cut", "lose-acks", "lose-data", "leader-first", "follower-first"][k % 5] if q else "cut"})
        if not q:
            for k in range(60, 420, 3):
                out.append({"kind": "sweep", "seed": base + 50000 + b, "kill_at": k, "how": ["lose-acks", "lose-data", "leader-first", "follower-first"][k % 4]})
    for i in range(40 if q else 1200):
        out.append({"kind": "twins", "seed": base + 70000 + i})
    for b in (range(2) if q else range(10)):
        for k in range(80, 380, 20 if q else 4):
            out.append({"kind": "sweep", "seed": base + 60000 + b, "kill_at": k, "how": "cut", "again": [7, 25]})
    return out


def run_burst_pause(spec):
    """directed: several records reach the receiver in one read; its application pauses from inside the first
    dataReceived() and resumes later, while the peer stays silent (no pings, no further writes): everything that had
    arrived must be handed over once reading is allowed again - nothing further will come along to shake it loose"""
    world = World(spec["seed"])
    rng = world.work_rng
    dp = DilatedPair(world, ping_interval=None)
    drv = ScriptDriver(dp, rng, names=("p0",), max_opens=0, max_writes=0, late_listen=0.0, close_prob=0.0)
    drv.budget["open"] = {"A": 0, "B": 0}
    sch = Scheduler(world, drv, strategy="random", chunking="whole")
    sch.run(3000, until=dp.both_connected)
    src, dst = spec["dir"], ("B" if spec["dir"] == "A" else "A")
    if "p0" not in drv.factories[dst]:
        drv.listen(dst, "p0")
    rec = drv.open(src, "p0")
    sch.run(1500, until=lambda: rec["proto"] is not None and bool(drv.factories[dst]["p0"].built))
    if rec["proto"] is None or not drv.factories[dst]["p0"].built:
        world.finish()
        return {"inconclusive": "subchannel did not open", "violations": []}
    q = drv.factories[dst]["p0"].built[0][1]
    sch.drain(2.0, 800)                      # acks of the open have settled: nothing is in flight
    state = {"paused": False}

    def react(p_, kind):
        if kind == "data" and not state["paused"]:
            state["paused"] = True
            p_.transport.pauseProducing()
    q.react = react
    n = spec["n"]
    for i in range(n):                       # one reactor turn: the records travel in one chunk
        drv.write(rec["proto"], b"burst:%d:" % i + rng.randbytes(rng.choice([1, 30, 500])))
    if spec.get("then_close"):
        drv.close(rec["proto"])
    sch.drain(3.0, 3000)
    got_before = len([e for e in q.events if e[0] == "data"])
    q.transport.resumeProducing()
    sch.drain(20.0, 3000)
    got = [e[1] for e in q.events if e[0] == "data"]
    viol = []
    if got != rec["proto"].sent:
        viol.append({"key": "C10/stream/arrived-but-withheld-after-resume", "msg": "%d records written in one turn; the receiver paused inside the first dataReceived() (%d handed over by then) and resumed later: %d of %d delivered 20 virtual s after the resume, the peer being silent" % (
            n, got_before, len(got), n), "witness": {"spec": spec, "events": [e[0] for e in q.events][:12]}})
    if spec.get("then_close") and "lost" not in [e[0] for e in q.events]:
        viol.append({"key": "C10/close-never-arrives/withheld-after-resume", "msg": "the CLOSE that followed the burst was not handed over after the resume", "witness": {"spec": spec}})
    dp.a.close()
    dp.b.close()
    sch.drain(120.0, 6000, until=lambda: dp.a.closed and dp.b.closed)
    world.finish()
    return {"violations": viol, "nontrivial": ["burst-pause", spec["seed"], n, got_before], "counters": {"bursts_paused_from_inside_dataReceived": int(state["paused"]), "writes_delivered": len(got), "complete": int(not viol)}}


def run_case(spec):
    if spec["kind"] == "burst-pause":
        return run_burst_pause(spec)
    world = World(spec["seed"])
    rng = world.work_rng
    dp = DilatedPair(world, ping_interval=rng.choice([None, 5.0]))
    twins = spec["kind"] == "twins"
    drv = ScriptDriver(dp, rng, late_listen=0.0 if twins else 0.2, pauses=spec.get("pauses", 0),
                       reactive=(12 if (spec["kind"] == "random" and spec["seed"] % 3 == 0) else 0),
                       falsy=(0.6 if (spec["kind"] == "random" and spec["seed"] % 4 == 2) else 0.0))
    by = None
    if twins or spec.get("bystander", spec["seed"] % 4 == 1):
        # a second, undisturbed dilated pair in the same process: nothing of one pair may reach the other
        dp2 = DilatedPair(world, ping_interval=None, code="77-by-stander")
        drv2 = ScriptDriver(dp2, rng, late_listen=0.0, max_opens=2, max_writes=12, sizes=(1, 200, 5000), close_prob=0.3)
        by = (dp2, drv2)
    if twins:
        for d_ in (drv, by[1]):
            d_.budget["open"] = {"A": 1, "B": 1}
            d_.budget["write"] = 0
            d_.budget["close"] = 0

    class Both:
        def actions(self_):
            acts = list(drv.actions())
            if by is not None:
                acts += [((k[0], "2:" + str(k[1])) + tuple(k[2:]), f) for (k, f) in by[1].actions()]
            return acts

        def drain_actions(self_):
            acts = list(drv.drain_actions()) if hasattr(drv, "drain_actions") else list(drv.actions())
            if by is not None:
                d2 = by[1]
                acts += [((k[0], "2:" + str(k[1])) + tuple(k[2:]), f) for (k, f) in (d2.drain_actions() if hasattr(d2, "drain_actions") else d2.actions())]
            return acts
    sch = Scheduler(world, Both(), strategy=rng.choice(["random", "pct", "netfirst"]), chunking=rng.choice(["mixed", "whole"]),
                    tiny_budget=rng.choice([0, 60, 300]))
    kills = {"done": 0, "skipped": 0, "retries": 0}

    def kill(how):
        link = dp.selected_link()
        if link is None:
            if spec.get("nkills") and kills["retries"] < 400:
                # long-lived sessions: the kill waits for the next generation instead of being skipped
                kills["retries"] += 1
                sch.faults.append((world.step + rng.randint(5, 25), lambda: kill(how), "kill (retry)"))
                sch.faults.sort(key=lambda f: f[0])
                return
            kills["skipped"] += 1
            return
        kills["done"] += 1
        if spec.get("offline_burst") and not kills.get("burst_done"):
            # the application keeps producing while the connection is gone (a user typing offline, a sync tool walking
            # a directory): well over a thousand small records wait for the next connection
            kills["burst_done"] = True
            world.reactor.cut(link)
            for side_ in "AB":
                live_ = [p_ for p_ in drv.protos(side_) if drv.is_open(p_)]
                for k_ in range(spec["offline_burst"] if live_ else 0):
                    drv.write(live_[k_ % len(live_)], b"%s:burst:%d" % (live_[k_ % len(live_)].name.encode(), k_))
                    kills["burst_writes"] = kills.get("burst_writes", 0) + 1
            return
        if how == "cut":
            world.reactor.cut(link)
        elif how in ("leader-first", "follower-first"):
            # only one side notices (the other end is blackholed): its RECONNECT / the ping timeout tells the other
            from twisted.internet import error
            from twisted.python import failure
            from ..simnet import unwrap
            lead = dp.leader()
            who = lead if how == "leader-first" else ("B" if lead == "A" else "A")
            world.reactor.blackhole(link)
            for e in link.ends:
                if dp.party_of(unwrap(e.protocol)) == who and e.connected:
                    e.outbuf.clear()
                    e._connection_lost(failure.Failure(error.ConnectionLost()))
        else:
            # direction index of the leader->follower stream
            lead = dp.leader()
            lead_end = [e.end for e in link.ends if dp.party_of(__import__("vt.simnet", fromlist=["unwrap"]).unwrap(e.protocol)) == lead]
            d = lead_end[0] if lead_end else 0
            world.reactor.blackhole(link, direction=(d if how == "lose-data" else 1 - d))
            sch.faults.append((world.step + rng.randint(3, 30), lambda: world.reactor.cut(link), "cut after blackhole"))
            sch.faults.sort(key=lambda f: f[0])
    pw = {"registered": 0, "writes": 0}
    if spec.get("pause_writer"):
        from zope.interface import implementer
        from twisted.internet.interfaces import IPushProducer

        @implementer(IPushProducer)
        class PauseWriter:
            def __init__(self, p_):
                self.p = p_
                self.budget = rng.randint(1, 6)

            def pauseProducing(self):
                if self.budget > 0 and drv.is_open(self.p):
                    self.budget -= 1
                    pw["writes"] += 1
                    drv.write(self.p, b"%s:stalled:%d" % (self.p.name.encode(), pw["writes"]))

            def resumeProducing(self):
                pass

            def stopProducing(self):
                pass

        def pw_hook():
            for side_ in "AB":
                for p_ in drv.protos(side_):
                    if drv.is_open(p_) and not getattr(p_, "pause_writer", None) and getattr(p_, "transport", None) is not None:
                        p_.pause_writer = PauseWriter(p_)
                        try:
                            p_.transport.registerProducer(p_.pause_writer, True)
                            pw["registered"] += 1
                        except Exception as e:
                            world.escapes.append((world.step, "app", "registerProducer", type(e).__name__, repr(e)[:200], ""))
        sch.hook = pw_hook
    bad_name = {"tried": 0, "outcome": None}
    if spec["kind"] == "random" and spec["seed"] % 5 == 0:
        # an application bug on one side: connect() with a subprotocol name that is a str but cannot be encoded (a lone
        # surrogate). It must be refused - and must not cost the other subchannels anything, now or after a reconnect
        def try_bad_name():
            bad_name["tried"] = 1
            side = rng.choice("AB")
            try:
                d_ = dp.dilate(side).connector_for("caf\udce9").connect(RecFactory(dp, "%s.open[bad]" % side))
                d_.addCallbacks(lambda p: bad_name.__setitem__("outcome", "connected"), lambda f: bad_name.__setitem__("outcome", f.type.__name__))
            except Exception as e:
                bad_name["outcome"] = type(e).__name__
        sch.faults.append((rng.randint(60, 300), try_bad_name, "connect with an unencodable name"))
    if twins:
        pass
    elif spec["kind"] == "random":
        nk = spec.get("nkills") or rng.choice([0, 1, 1, 2, 3, 5])
        for _ in range(nk):
            sch.faults.append((rng.randint(40, 500 if nk < 8 else 850), (lambda h=rng.choice(["cut", "cut", "lose-acks", "lose-data", "leader-first", "follower-first"]): kill(h)), "kill"))
    else:
        sch.faults.append((spec["kill_at"], lambda: kill(spec["how"]), "kill " + spec["how"]))
        for gap in spec.get("again", []):
            sch.faults.append((spec["kill_at"] + gap, lambda: kill("cut"), "kill again"))
    sch.faults.sort(key=lambda f: f[0])

    def settled():
        return settled_for(dp, drv) and (by is None or settled_for(*by))

    def settled_for(dp, drv):
        if any(r["proto"] is None and r["failure"] is None for r in drv.opens):
            return False
        for (r, q) in drv.pairs():
            p = r["proto"]
            if q is None:
                return False
            if [e[1] for e in q.events if e[0] == "data"] != getattr(p, "sent", []):
                return False
            if [e[1] for e in p.events if e[0] == "data"] != getattr(q, "sent", []):
                return False
            closed = getattr(p, "closed_local", False) or getattr(q, "closed_local", False)
            if closed and not (("lost",) in [e[:1] for e in p.events] and ("lost",) in [e[:1] for e in q.events]):
                return False
        return dp.both_connected() or not drv.opens
    if twins:
        # both pairs lose their connection at the same moment with records written during the outage, so that
        # both Followers receive KCM + replayed records in the same reactor turn
        def ready():
            return (dp.both_connected() and by[0].both_connected() and
                    all(len(d_.opens) == 2 and all(r["proto"] is not None for r in d_.opens) for d_ in (drv, by[1])))
        sch.run(4000, until=ready)
        sch.run(150)
        for pair in (dp, by[0]):
            link = pair.selected_link()
            if link is not None:
                world.reactor.cut(link)
                kills["done"] += 1
        for d_ in (drv, by[1]):
            for side in "AB":
                for p_ in d_.protos(side):
                    if d_.is_open(p_):
                        for _ in range(rng.randint(2, 4)):
                            d_.write(p_)
        end1 = "twins"
    else:
        end1 = sch.run(900 + 150 * (spec.get("nkills") or 0))
    for d_ in [drv] + ([by[1]] if by else []):
        d_.budget["open"] = {"A": 0, "B": 0}
        d_.budget["write"] = 0
        d_.budget["close"] = 0
        for side in "AB":
            while d_.pending_listen[side]:
                d_.listen(side, d_.pending_listen[side].pop(0))
    end = sch.drain(600.0, 40000, until=settled)
    if end == "steps":
        # the step cap, not the virtual-time bound, ended the drain: no verdict on this case
        world.finish()
        return {"inconclusive": "step cap reached in the final drain", "violations": []}
    complete = settled()
    viol = []
    counters = {"kills": kills["done"], "kills_skipped": kills["skipped"], "opens": len(drv.opens),
                "writes_delivered": 0, "complete": int(complete), "bystander_pairs": int(by is not None), "twin_cases": int(twins),
                "app_pauses": drv.pauses_done, "writes_in_offline_bursts": kills.get("burst_writes", 0), "unencodable_names_tried": bad_name["tried"], "false_factories": drv.falsy_factories, "calls_from_inside_protocol_callbacks": drv.reactions_done, "app_resumes_while_offline": drv.resumes_offline,
                "writes_from_inside_pauseProducing": pw["writes"], "app_pauses_from_inside_dataReceived": getattr(drv, "pauses_in_data", 0)}

    def wit(extra=None):
        w = {"spec": spec, "roles": {n: str(dp.role(n)) for n in "AB"}, "states": {n: dp.mstate(n) for n in "AB"},
             "faults": [t for t in sch.trace if t[0] == "fault"], "log_tail": drv.dp.log[-40:], "drain_end": end,
             "netlog_tail": [x for x in world.reactor.netlog if x[0] in ("cut", "blackhole", "lost", "dial")][-20:],
             "write_errors": drv.write_errors[:5]}
        if extra:
            w.update(extra)
        return w
    all_pairs = [(dp, drv, "")] + ([(by[0], by[1], "bystander ")] if by else [])
    for (dp_, drv_, tag) in all_pairs:
      for (r, q) in drv_.pairs():
        p = r["proto"]
        label = "%s%s->%s %s" % (tag, r["side"], "B" if r["side"] == "A" else "A", p.name)
        if q is None:
            if not complete:
                viol.append({"key": "C10/open-never-arrives", "msg": "%s: the peer never saw this subchannel (drain %s)" % (label, end), "witness": wit()})
            continue
        for (s_, r_, lab) in ((p, q, label + " (opener to acceptor)"), (q, p, label + " (acceptor to opener)")):
            sc = stream_check(s_, r_, lab)
            got = [e[1] for e in r_.events if e[0] == "data"]
            counters["writes_delivered"] += len(got)
            if sc:
                viol.append({"key": "C10/stream/" + sc[0], "msg": sc[1], "witness": wit({"sent_sizes": [len(x) for x in getattr(s_, "sent", [])], "got_sizes": [len(x) for x in got]})})
            elif got != getattr(s_, "sent", []):
                viol.append({"key": "C10/stream/lost-writes", "msg": "%s: %d of %d writes delivered %d virtual s after the last kill (managers %s/%s)" % (
                    lab, len(got), len(getattr(s_, "sent", [])), 600, dp.mstate("A"), dp.mstate("B")),
                    "witness": wit({"sent_sizes": [len(x) for x in getattr(s_, "sent", [])], "got_sizes": [len(x) for x in got]})})
            kinds = [e[0] for e in r_.events]
            if kinds[:1] != ["made"] or kinds.count("made") != 1:
                viol.append({"key": "C10/connectionMade-not-once-first", "msg": "%s: %s" % (lab, kinds[:6]), "witness": wit()})
            if kinds.count("lost") > 1:
                viol.append({"key": "C10/connectionLost-twice", "msg": "%s: %s" % (lab, kinds), "witness": wit()})
            if "lost" in kinds and kinds.index("lost") != len(kinds) - 1:
                viol.append({"key": "C10/event-after-connectionLost", "msg": "%s: %s" % (lab, kinds[-6:]), "witness": wit()})
        closed = getattr(p, "closed_local", False) or getattr(q, "closed_local", False)
        lost = ["lost" in [e[0] for e in x.events] for x in (p, q)]
        if closed and not all(lost):
            viol.append({"key": "C10/close-never-arrives", "msg": "%s: close issued but connectionLost seen by opener=%s acceptor=%s" % (label, lost[0], lost[1]), "witness": wit()})
        if not closed and any(lost):
            viol.append({"key": "C10/connectionLost-without-close", "msg": "%s: nobody closed, yet opener=%s acceptor=%s lost" % (label, lost[0], lost[1]), "witness": wit()})
    # extra acceptor protocols nobody opened (duplicated OPEN)
    for (dp_, drv_, tag) in all_pairs:
        for side in "AB":
            other = "B" if side == "A" else "A"
            for name, f in drv_.factories[side].items():
                n_open = len([r for r in drv_.opens if r["side"] == other and r["name"] == name and r["proto"] is not None])
                if len(f.built) > n_open:
                    viol.append({"key": "C10/subchannel-opened-twice", "msg": "%s%s built %d protocols for %r, the peer opened %d" % (tag, side, len(f.built), name, n_open), "witness": wit()})
        for r in drv_.opens:
            if r["failure"]:
                viol.append({"key": "C10/connect-failed/" + r["failure"], "msg": "%sconnect() failed: %s" % (tag, r["failure"]), "witness": wit()})
    apps = [dp.a, dp.b] + ([by[0].a, by[0].b] if by else [])
    for a_ in apps:
        a_.close()
    sch.drain(120.0, 8000, until=lambda: all(a_.closed for a_ in apps))
    world.finish()
    nontrivial = trace_digest(sch) if (kills["done"] and counters["writes_delivered"]) else None
    counters.update({"notrans_seen": len(MON.notrans), "log_errors_seen": len(MON.errors), "steps": world.step})
    return {"violations": viol, "nontrivial": nontrivial, "counters": counters,
            "sets": {"dilation_notrans": ["%s.%s/%s" % k for k in set(MON.notrans)],
                     "manager_states_seen": sorted({"%s.%s" % (k[0], k[1]) for k in MON.cov if k[0] == "Manager"})},
            "sample": {"spec": spec, "opens": [(r["side"], r["name"], bool(r["proto"])) for r in drv.opens],
                       "kills": kills, "complete": complete, "drain_end": end,
                       "streams": [[len(getattr(r["proto"], "sent", [])), len([e for e in (q.events if q is not None else []) if e[0] == "data"])] for (r, q) in drv.pairs()],
                       "faults": [t for t in sch.trace if t[0] == "fault"]}}
