# Stand-in for noiseprotocol's NoiseConnection: implements exactly
# Noise_NNpsk0_25519_ChaChaPoly_BLAKE2s per the Noise spec rev 34.
import hashlib, hmac, os, struct
from cryptography.hazmat.primitives.asymmetric.x25519 import X25519PrivateKey, X25519PublicKey
from cryptography.hazmat.primitives.ciphers.aead import ChaCha20Poly1305
from cryptography.hazmat.primitives import serialization
from cryptography.exceptions import InvalidTag
from .exceptions import (NoiseProtocolNameError, NoisePSKError, NoiseValueError,
                         NoiseHandshakeError, NoiseInvalidMessage, NoiseMaxNonceError)

MAX_MESSAGE_LEN = 65535
MAX_NONCE = 2 ** 64 - 1
HASHLEN = 32
DHLEN = 32

def _hash(data):
    return hashlib.blake2s(data).digest()

def _hmac(key, data):
    return hmac.new(key, data, hashlib.blake2s).digest()

def _hkdf(ck, ikm, n):
    temp = _hmac(ck, ikm)
    o1 = _hmac(temp, b"\x01")
    o2 = _hmac(temp, o1 + b"\x02")
    if n == 2:
        return o1, o2
    o3 = _hmac(temp, o2 + b"\x03")
    return o1, o2, o3

class _CipherState:
    def __init__(self, k=None):
        self.k = k; self.n = 0
    def has_key(self): return self.k is not None
    def _nonce(self):
        return b"\x00\x00\x00\x00" + struct.pack("<Q", self.n)
    def encrypt_with_ad(self, ad, pt):
        if self.k is None: return pt
        if self.n == MAX_NONCE: raise NoiseMaxNonceError("Nonce has depleted!")
        ct = ChaCha20Poly1305(self.k).encrypt(self._nonce(), pt, ad)
        self.n += 1
        return ct
    def decrypt_with_ad(self, ad, ct):
        if self.k is None: return ct
        if self.n == MAX_NONCE: raise NoiseMaxNonceError("Nonce has depleted!")
        try:
            pt = ChaCha20Poly1305(self.k).decrypt(self._nonce(), ct, ad)
        except InvalidTag:
            raise NoiseInvalidMessage("Failed authentication of message")
        self.n += 1
        return pt

class _SymmetricState:
    def __init__(self, name):
        self.h = name + b"\x00" * (HASHLEN - len(name)) if len(name) <= HASHLEN else _hash(name)
        self.ck = self.h
        self.cs = _CipherState()
    def mix_key(self, ikm):
        self.ck, temp_k = _hkdf(self.ck, ikm, 2)
        self.cs = _CipherState(temp_k[:32])
    def mix_hash(self, data):
        self.h = _hash(self.h + data)
    def mix_key_and_hash(self, ikm):
        self.ck, temp_h, temp_k = _hkdf(self.ck, ikm, 3)
        self.mix_hash(temp_h)
        self.cs = _CipherState(temp_k[:32])
    def encrypt_and_hash(self, pt):
        ct = self.cs.encrypt_with_ad(self.h, pt)
        self.mix_hash(ct)
        return ct
    def decrypt_and_hash(self, ct):
        pt = self.cs.decrypt_with_ad(self.h, ct)
        self.mix_hash(ct)
        return pt
    def split(self):
        k1, k2 = _hkdf(self.ck, b"", 2)
        return _CipherState(k1[:32]), _CipherState(k2[:32])

class NoiseConnection:
    _NAME = b"Noise_NNpsk0_25519_ChaChaPoly_BLAKE2s"

    def __init__(self):
        self._initiator = None
        self._psks = None
        self._prologue = b""
        self._started = False
        self.handshake_finished = False
        self._step = 0
        self._e = None
        self._send = self._recv = None

    @classmethod
    def from_name(cls, name):
        if isinstance(name, str): name = name.encode("ascii")
        if name != cls._NAME:
            raise NoiseProtocolNameError("stand-in supports only %r" % cls._NAME)
        return cls()

    def set_psks(self, psk=None, psks=None):
        psks = [psk] if psk is not None else list(psks or [])
        if len(psks) != 1 or not isinstance(psks[0], bytes) or len(psks[0]) != 32:
            raise NoisePSKError("Invalid psk length! Has to be 32")
        self._psks = psks
    def set_prologue(self, prologue): self._prologue = prologue
    def set_as_initiator(self): self._initiator = True
    def set_as_responder(self): self._initiator = False

    def start_handshake(self):
        if self._initiator is None:
            raise NoiseHandshakeError("role not set")
        if not self._psks:
            raise NoisePSKError("psk not set")
        self._ss = _SymmetricState(self._NAME)
        self._ss.mix_hash(self._prologue)
        self._started = True
        # pattern: -> psk, e   <- e, ee
        self._my_turn = self._initiator

    def _check_hs(self):
        if not self._started: raise NoiseHandshakeError("Call NoiseConnection.start_handshake first")
        if self.handshake_finished: raise NoiseHandshakeError("Handshake finished. NoiseConnection.decrypt should be used now")

    def write_message(self, payload=b""):
        self._check_hs()
        if not self._my_turn:
            raise NoiseHandshakeError("NoiseConnection.read_message has to be called now")
        ss = self._ss
        out = b""
        if self._initiator:   # -> psk, e
            ss.mix_key_and_hash(self._psks[0])
        self._e = X25519PrivateKey.from_private_bytes(os.urandom(32))
        epub = self._e.public_key().public_bytes(serialization.Encoding.Raw, serialization.PublicFormat.Raw)
        out += epub
        ss.mix_hash(epub); ss.mix_key(epub)
        if not self._initiator:  # <- e, ee
            ss.mix_key(self._e.exchange(self._re))
        out += ss.encrypt_and_hash(payload)
        self._my_turn = False
        if not self._initiator:
            self._finish()
        return out

    def read_message(self, data):
        self._check_hs()
        if self._my_turn:
            raise NoiseHandshakeError("NoiseConnection.write_message has to be called now")
        data = bytes(data)
        if len(data) > MAX_MESSAGE_LEN:
            raise NoiseInvalidMessage("Message must be shorter or equal to %d bytes" % MAX_MESSAGE_LEN)
        ss = self._ss
        if not self._initiator:  # reading "-> psk, e"
            ss.mix_key_and_hash(self._psks[0])
        if len(data) < DHLEN:
            raise NoiseValueError("Invalid length of public_bytes! Should be 32")
        re_bytes, rest = data[:DHLEN], data[DHLEN:]
        self._re = X25519PublicKey.from_public_bytes(re_bytes)
        ss.mix_hash(re_bytes); ss.mix_key(re_bytes)
        if self._initiator:  # reading "<- e, ee"
            ss.mix_key(self._e.exchange(self._re))
        payload = ss.decrypt_and_hash(rest)
        self._my_turn = True
        if self._initiator:
            self._finish()
        return payload

    def _finish(self):
        c1, c2 = self._ss.split()
        if self._initiator: self._send, self._recv = c1, c2
        else: self._send, self._recv = c2, c1
        self.handshake_finished = True

    def encrypt(self, data):
        if not self.handshake_finished:
            raise NoiseHandshakeError("Handshake not finished yet!")
        if not isinstance(data, bytes) or len(data) > MAX_MESSAGE_LEN:
            raise NoiseInvalidMessage("Data must be bytes and less or equal %d bytes in length" % MAX_MESSAGE_LEN)
        return self._send.encrypt_with_ad(b"", data)

    def decrypt(self, data):
        if not self.handshake_finished:
            raise NoiseHandshakeError("Handshake not finished yet!")
        if not isinstance(data, bytes) or len(data) > MAX_MESSAGE_LEN:
            raise NoiseInvalidMessage("Data must be bytes and less or equal %d bytes in length" % MAX_MESSAGE_LEN)
        return self._recv.decrypt_with_ad(b"", data)
