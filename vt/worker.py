"""Worker: runs a shard of case specs for one property, sequentially, in this process."""
from . import boot
import importlib
import json
import os
import signal
import sys
import time
import traceback


class CaseTimeout(BaseException):
    pass


def _alarm(signum, frame):
    raise CaseTimeout()


def run_spec(mod, spec, timeout=180, attempt=1):
    t0 = time.time()
    signal.signal(signal.SIGALRM, _alarm)
    signal.alarm(int(spec.get("wall_timeout", timeout)) * attempt)
    try:
        res = mod.run_case(spec)
    except CaseTimeout:
        signal.alarm(0)
        if attempt == 1:
            # cases are deterministic: a stall of the machine (not of the case) does not repeat, so try once
            # more with twice the allowance before calling the case inconclusive
            return run_spec(mod, spec, timeout, attempt=2)
        res = {"inconclusive": "case wall-clock watchdog (twice)", "violations": []}
    except BaseException as e:
        res = {"inconclusive": "harness error: %s: %s" % (type(e).__name__, str(e)[:300]),
               "trace": traceback.format_exc()[-3000:], "violations": []}
        # an exception that was raised INSIDE the library under test and came out of a call the harness made
        # (on the unchanged tree no case ends this way) is the library failing, not the harness: a violation.
        # An exception raised in harness code itself (e.g. a private attribute that no longer exists) stays
        # a harness error = inconclusive.
        try:
            tb = traceback.extract_tb(e.__traceback__)
            inner = tb[-1] if tb else None
            src = os.path.join(boot.REPO_SRC, "wormhole") + os.sep
            from wormhole.errors import WormholeError
            if inner is not None and inner.filename.startswith(src) and not isinstance(e, WormholeError):
                where = "%s:%s" % (inner.filename[len(src):], inner.name)
                res = {"violations": [{"key": "%s/library-raised-into-harness/%s/%s" % (mod.PID, type(e).__name__, where),
                                       "msg": "%s raised from %s line %d: %s" % (type(e).__name__, where, inner.lineno, str(e)[:200]),
                                       "witness": {"spec": spec, "trace": traceback.format_exc()[-2500:]}}]}
        except Exception:
            pass
    finally:
        signal.alarm(0)
    res.setdefault("violations", [])
    res["wall"] = round(time.time() - t0, 4)
    res["spec"] = spec
    return res


def main():
    pid, inp, outp = sys.argv[1:4]
    cov = None
    if os.environ.get("VT_COVERAGE"):
        import coverage
        cov = coverage.Coverage(data_file=os.environ["VT_COVERAGE"], data_suffix=True,
                                include=[os.path.join(boot.REPO_SRC, "wormhole", "*")], omit=["*/test/*"])
        cov.start()
    try:
        _main(pid, inp, outp)
    finally:
        if cov is not None:
            cov.stop()
            cov.save()


def _main(pid, inp, outp):
    mod = importlib.import_module("vt.props." + pid.lower())
    specs = json.load(open(inp))
    with open(outp, "w") as out:
        for i, spec in enumerate(specs):
            res = run_spec(mod, spec)
            if i >= 2 and not res["violations"]:
                res.pop("sample", None)
            out.write(json.dumps(res, default=repr) + "\n")
            out.flush()


if __name__ == "__main__":
    main()
