"""Check driver:  python -m vt.run --property Cxx [--tier quick|thorough] [--replay path]

exit 0: held on everything explored (KNOWN-FINDING lines allowed)
exit 1: VIOLATION property=<id> replay=<path>
exit 2: INCONCLUSIVE property=<id> reason=...
"""
import argparse
import collections
import importlib
import json
import os
import shutil
import subprocess
import sys
import time

HERE = os.path.dirname(os.path.abspath(__file__))
VERIF = os.path.dirname(HERE)
PY = sys.executable


def load_known():
    p = os.path.join(VERIF, "known_findings.json")
    if not os.path.exists(p):
        return {}, []
    j = json.load(open(p))
    known = {}
    for e in j.get("known", []):
        known[e["key"]] = e
    return known, j.get("fixed", [])


def shard_run(pid, specs, jobs, work, timeout):
    os.makedirs(work, exist_ok=True)
    shards = [specs[i::jobs] for i in range(jobs)]
    shards = [s for s in shards if s]
    procs = []
    env = dict(os.environ)
    env["PYTHONHASHSEED"] = "0"
    env["PYTHONPATH"] = VERIF + os.pathsep + env.get("PYTHONPATH", "")
    env.setdefault("MAGIC_WORMHOLE_VERIF", "1")
    for i, s in enumerate(shards):
        inp = os.path.join(work, "in-%d.json" % i)
        outp = os.path.join(work, "out-%d.jsonl" % i)
        json.dump(s, open(inp, "w"))
        if os.path.exists(outp):
            os.remove(outp)
        logf = open(os.path.join(work, "log-%d.txt" % i), "w")
        p = subprocess.Popen([PY, "-m", "vt.worker", pid, inp, outp], cwd=VERIF, env=env,
                             stdout=logf, stderr=subprocess.STDOUT)
        procs.append((p, outp, len(s), logf, i))
    results = []
    problems = []
    deadline = time.time() + timeout
    for (p, outp, n, logf, i) in procs:
        try:
            p.wait(timeout=max(1, deadline - time.time()))
        except subprocess.TimeoutExpired:
            p.kill()
            p.wait()
            problems.append("shard %d hit the wall-clock watchdog" % i)
        logf.close()
        got = 0
        if os.path.exists(outp):
            for line in open(outp):
                line = line.strip()
                if line:
                    try:
                        results.append(json.loads(line))
                        got += 1
                    except ValueError:
                        pass
        if got < n and not any("shard %d " % i in x for x in problems):
            tail = open(os.path.join(work, "log-%d.txt" % i)).read()[-600:]
            problems.append("shard %d died after %d/%d cases (rc=%s): %s" % (i, got, n, p.returncode, tail))
    return results, problems


def main(argv=None):
    ap = argparse.ArgumentParser()
    ap.add_argument("--property", "-p")
    ap.add_argument("--tier", default=os.environ.get("VERIF_TIER", "quick"))
    ap.add_argument("--replay")
    ap.add_argument("--jobs", type=int, default=int(os.environ.get("VT_JOBS", "16")))
    ap.add_argument("--limit", type=int, default=0)
    ap.add_argument("--no-evidence", action="store_true")
    args = ap.parse_args(argv)
    if args.replay:
        return replay(args.replay)
    pid = args.property.upper()
    tier = args.tier if args.tier in ("quick", "thorough") else "quick"
    try:
        seed = int(os.environ.get("VERIF_SEED", "0"))
    except ValueError:
        seed = 0
    sys.path.insert(0, VERIF)
    t0 = time.time()
    try:
        mod = importlib.import_module("vt.props." + pid.lower())
        specs = mod.cases(tier, seed)
    except BaseException as e:
        import traceback
        traceback.print_exc()
        print("INCONCLUSIVE property=%s reason=harness import/generation failed: %r" % (pid, e))
        return 2
    if args.limit:
        specs = specs[:args.limit]
    for i, s in enumerate(specs):
        s["idx"] = i
    work = os.path.join(VERIF, ".work", "%s-%s-%d" % (pid, tier, os.getpid()))
    timeout = getattr(mod, "WALL", {}).get(tier, 1500 if tier == "quick" else 14000)
    results, problems = shard_run(pid, specs, args.jobs, work, timeout)
    shutil.rmtree(work, ignore_errors=True)

    known, fixed = load_known()
    counters = collections.Counter()
    sets = collections.defaultdict(set)
    nontrivial = set()
    samples = []
    viols = []
    inconcl = list(problems)
    for r in results:
        for k, v in (r.get("counters") or {}).items():
            counters[k] += v
        for k, v in (r.get("sets") or {}).items():
            for x in v:
                sets[k].add(json.dumps(x, sort_keys=True, default=repr))
        nt = r.get("nontrivial")
        if nt is not None:
            nontrivial.add(json.dumps(nt, sort_keys=True, default=repr))
        if r.get("sample") is not None and len(samples) < 4:
            samples.append(r["sample"])
        if r.get("inconclusive"):
            inconcl.append("case %s: %s %s" % (r["spec"].get("idx"), r["inconclusive"],
                                               (r.get("trace") or "")[-800:]))
        for v in r["violations"]:
            viols.append((v, r["spec"]))
    floors = getattr(mod, "FLOORS", {}).get(tier, {})
    for k, mn in floors.items():
        if counters.get(k, 0) < mn:
            inconcl.append("deciding counter %s=%d below its floor %d" % (k, counters.get(k, 0), mn))

    # classify violations
    new_by_key = collections.OrderedDict()
    known_seen = collections.OrderedDict()
    for v, spec in viols:
        key = v["key"]
        if key in known:
            known_seen.setdefault(key, []).append((v, spec))
        else:
            new_by_key.setdefault(key, []).append((v, spec))
    for key, lst in known_seen.items():
        print("KNOWN-FINDING: property=%s %s [%s] (%d cases this run)" % (
            pid, known[key].get("what", ""), key, len(lst)))
    rdir = os.path.join(VERIF, "replays")
    n_new = 0
    for key, lst in new_by_key.items():
        os.makedirs(rdir, exist_ok=True)
        v, spec = lst[0]
        path = os.path.join(rdir, "%s-%s.json" % (pid, "".join(c if c.isalnum() else "_" for c in key)[-80:]))
        json.dump({"property": pid, "key": key, "spec": spec, "violation": v,
                   "n_cases_with_this_key": len(lst), "tier": tier, "seed": seed},
                  open(path, "w"), indent=1, default=repr)
        print("VIOLATION property=%s replay=%s" % (pid, path))
        print("  key=%s  cases=%d  %s" % (key, len(lst), v.get("msg", "")[:400]))
        n_new += 1

    wall = time.time() - t0
    cov = {
        "evaluations": len(results),
        "distinct_nontrivial": len(nontrivial),
        "rule": getattr(mod, "RULE", ""),
        "samples": samples or [{"note": "no sample recorded"}],
        "counters": dict(counters),
        "sets": {k: {"n": len(v), "some": sorted(v)[:12]} for k, v in sets.items()},
        "cases_generated": len(specs),
        "inconclusive": inconcl[:10],
        "known_findings_seen": {k: len(v) for k, v in known_seen.items()},
        "new_violation_keys": list(new_by_key.keys()),
    }
    extra = getattr(mod, "evidence_extra", None)
    if extra is not None:
        try:
            cov.update(extra(counters, sets))
        except Exception as e:  # pragma: no cover
            cov["evidence_extra_error"] = repr(e)
    ev = {
        "property_id": pid, "tier": tier, "seed": seed,
        "level": getattr(mod, "LEVEL", "exploration"),
        "coverage": cov,
        "assumptions": getattr(mod, "ASSUMPTIONS", []),
        "wall_s": round(wall, 2),
        "violations": n_new,
    }
    if not args.no_evidence:
        os.makedirs(os.path.join(VERIF, "evidence"), exist_ok=True)
        json.dump(ev, open(os.path.join(VERIF, "evidence", "%s.json" % pid), "w"), indent=1,
                  default=repr)
    print("%s %s seed=%d: %d cases, %d distinct non-trivial, %d new violation keys, %d known, %.1fs" % (
        pid, tier, seed, len(results), len(nontrivial), n_new, len(known_seen), wall))
    show = {k: counters[k] for k in sorted(counters)}
    print("  counters:", json.dumps(show))
    if n_new:
        return 1
    if inconcl:
        for x in inconcl[:5]:
            print("INCONCLUSIVE property=%s reason=%s" % (pid, x[:1500]))
        return 2
    return 0


def replay(path):
    sys.path.insert(0, VERIF)
    j = json.load(open(path))
    env = dict(os.environ)
    if env.get("PYTHONHASHSEED") != "0":
        env["PYTHONHASHSEED"] = "0"
        env["PYTHONPATH"] = VERIF + os.pathsep + env.get("PYTHONPATH", "")
        return subprocess.call([PY, "-m", "vt.run", "--replay", path], env=env, cwd=VERIF)
    from . import worker
    mod = importlib.import_module("vt.props." + j["property"].lower())
    res = worker.run_spec(mod, j["spec"])
    print(json.dumps({k: res[k] for k in res if k != "spec"}, indent=1, default=repr)[:6000])
    keys = [v["key"] for v in res["violations"]]
    if j.get("key") in keys:
        print("REPRODUCED %s" % j["key"])
        return 1
    print("NOT REPRODUCED (got %s)" % keys)
    return 0


if __name__ == "__main__":
    sys.exit(main())
