"""Shared workload pieces for the Dilation properties (C10-C13, C15-C17, C20 path 2)."""
from twisted.internet import protocol, interfaces
from zope.interface import implementer

from .apps import WApp
from .env import RELAY_HINT
from .simnet import unwrap
from .monitors import state_of

from wormhole._dilation.connection import DilatedConnectionProtocol
from wormhole._dilation.roles import LEADER, FOLLOWER


class RecProto(protocol.Protocol):
    """subchannel application protocol that records its callbacks"""

    def __init__(self, owner, name, addr):
        self.owner, self.name, self.addr = owner, name, addr
        self.events = []       # ("made",) ("data", bytes) ("lost", reason type)
        self.write_errors = []

    react = None      # optional: called with (proto, kind) from inside the callback (an application that acts at once)

    def connectionMade(self):
        self.events.append(("made",))
        self.owner.log.append((self.owner.world.step, self.name, "made"))
        if self.react:
            self.react(self, "made")

    def dataReceived(self, data):
        self.events.append(("data", bytes(data)))
        self.owner.log.append((self.owner.world.step, self.name, "data", len(data)))
        if self.react:
            self.react(self, "data")

    def connectionLost(self, reason=None):
        self.events.append(("lost", getattr(getattr(reason, "type", None), "__name__", type(reason).__name__)))
        self.owner.log.append((self.owner.world.step, self.name, "lost"))
        if self.react:
            self.react(self, "lost")


@implementer(interfaces.IHalfCloseableProtocol)
class HalfRecProto(RecProto):
    def readConnectionLost(self):
        self.events.append(("read-lost",))

    def writeConnectionLost(self):
        self.events.append(("write-lost",))


class BufferRecProto(RecProto):
    """a protocol that is also a container (its receive buffer): empty, hence false, most of the time"""

    def __len__(self):
        return 0


class RecFactory(protocol.Factory):
    falsy = False          # the factory doubles as the container of its live connections: empty (false) at first
    falsy_protocols = False

    def __init__(self, owner, name, half=False):
        self.owner, self.name, self.half = owner, name, half
        self.built = []        # (addr.subprotocol, proto)

    def __len__(self):
        return 0 if self.falsy else 1

    def buildProtocol(self, addr):
        cls = HalfRecProto if self.half else (BufferRecProto if self.falsy_protocols else RecProto)
        p = cls(self.owner, "%s#%d" % (self.name, len(self.built)), addr)
        if getattr(self, "react", None):
            p.react = self.react
        self.built.append((getattr(addr, "subprotocol", None), p))
        self.owner.log.append((self.owner.world.step, self.name, "build", getattr(addr, "subprotocol", None)))
        return p


class DilatedPair:
    """two real wormholes with dilation=True sharing a code"""

    def __init__(self, world, relay=False, ping_interval=None, expected=(None, None), no_listen=(False, False),
                 code="4-purple-sausages", dilate_now=True, dilation=(True, True)):
        self.world = world
        self.log = []
        self.a = WApp(world, "A", dilation=dilation[0], eager_msgs=False)
        self.b = WApp(world, "B", dilation=dilation[1], eager_msgs=False)
        self.apps = {"A": self.a, "B": self.b}
        self.dw = {"A": None, "B": None}
        relay_ = relay if isinstance(relay, (tuple, list)) else (relay, relay)     # (per side: A, B)
        self.kw = {n: dict(transit_relay_location=RELAY_HINT if relay_[i] else None, no_listen=no_listen[i],
                           ping_interval=ping_interval, expected_subprotocols=expected[i])
                   for i, n in enumerate("AB")}
        self.a.call("set_code", code)
        self.b.call("set_code", code)
        if dilate_now:
            self.dilate("A")
            self.dilate("B")

    def dilate(self, name):
        if self.dw[name] is None:
            self.dw[name] = self.apps[name].w.dilate(**self.kw[name])
        return self.dw[name]

    def manager(self, name):
        return self.apps[name].w._boss._D._manager

    def mstate(self, name):
        m = self.manager(name)
        return state_of(m) if m is not None else None

    def role(self, name):
        m = self.manager(name)
        return getattr(m, "_my_role", None) if m is not None else None

    def both_connected(self):
        return self.mstate("A") == "CONNECTED" and self.mstate("B") == "CONNECTED"

    def party_of(self, proto):
        """'A'/'B'/None for a DilatedConnectionProtocol"""
        if not isinstance(proto, DilatedConnectionProtocol):
            return None
        mgr = getattr(getattr(proto, "_connector", None), "_manager", None)
        for n in "AB":
            if mgr is not None and mgr is self.manager(n):
                return n
        return None

    def l2_links(self):
        """links carrying a Dilation connection of THIS pair (other pairs may live in the same World)"""
        out = []
        for link in self.world.reactor.links:
            ps = [unwrap(e.protocol) for e in link.ends]
            if any(isinstance(p, DilatedConnectionProtocol) and self.party_of(p) is not None for p in ps):
                out.append(link)
        return out

    def selected_ends(self, name, live_only=True):
        """transports of party `name` whose DilatedConnectionProtocol is in state 'selected'"""
        out = []
        for link in self.l2_links():
            for e in link.ends:
                p = unwrap(e.protocol)
                if self.party_of(p) == name and state_of(p) == "selected" and (e.connected or not live_only):
                    out.append(e)
        return out

    def selected_link(self):
        """the link both of whose ends are selected and connected (direct connection)"""
        for link in self.l2_links():
            if all(e.connected and state_of(unwrap(e.protocol)) == "selected" for e in link.ends
                   if isinstance(unwrap(e.protocol), DilatedConnectionProtocol)) and \
               all(isinstance(unwrap(e.protocol), DilatedConnectionProtocol) for e in link.ends) and \
               all(e.connected for e in link.ends):
                return link
        return None

    def leader(self):
        for n in "AB":
            if self.role(n) is LEADER:
                return n
        return None


class ScriptDriver:
    """Random application script over subchannels: listen / open / write / close on both sides."""

    def __init__(self, dp, rng, names=("p0", "p1"), max_opens=3, max_writes=30, sizes=(1, 10, 200, 5000, 70000, (65490, 65545), (131010, 131070)),
                 late_listen=0.3, half=0.0, close_prob=0.5, listen_names=None, pauses=0, reactive=0, falsy=0.0):
        self.dp, self.rng = dp, rng
        self.falsy = falsy             # share of factories (and their protocols) that are false-y objects
        self.falsy_factories = 0
        self.reactions = reactive      # budget of writes/closes made from inside connectionMade/dataReceived/connectionLost
        self.reactions_done = 0
        self.escaping = 0.0            # share of the errors met inside connectionLost() that the application lets escape
        self.escaped = 0
        self.late_write_results = []   # (proto name, exception type or None) for writes attempted from connectionLost
        self.pauses = pauses           # budget of application-level pauseProducing() calls (each is resumed later)
        self.pauses_done = 0
        self.resumes_offline = 0
        self.world = dp.world
        self.names = list(names)
        self.listen_names = {n: list(listen_names[n]) if listen_names else list(names) for n in "AB"}
        self.sizes = sizes
        self.half = half
        self.factories = {"A": {}, "B": {}}          # side -> name -> RecFactory (listening)
        self.listening = {"A": set(), "B": set()}
        self.opens = []          # dicts: side, name, proto, failure, half
        self.budget = {"open": {"A": rng.randint(0, max_opens), "B": rng.randint(0, max_opens)},
                       "write": rng.randint(0, max_writes), "close": close_prob}
        self.counter = 0
        self.pending_listen = {"A": [], "B": []}
        for side in "AB":
            for n in self.listen_names[side]:
                if rng.random() < late_listen:
                    self.pending_listen[side].append(n)
                else:
                    self.listen(side, n)
        self.write_errors = []
        self.stop = False

    def _maybe_falsy(self, f):
        if self.falsy and self.rng.random() < self.falsy:
            f.falsy = True
            f.falsy_protocols = True
            self.falsy_factories += 1

    def _react(self, p, kind):
        if kind == "data" and self.pauses > 0 and not self.stop and not getattr(p, "app_paused", False) and self.is_open(p) \
                and self.rng.random() < 0.3:
            # back-pressure applied where applications apply it: from inside dataReceived(), possibly with further
            # records of the same read still to come
            self.pauses -= 1
            self.pauses_in_data = getattr(self, "pauses_in_data", 0) + 1
            self.pause(p)
            return
        if self.reactions <= 0 or self.stop or self.rng.random() < 0.5:
            return
        self.reactions -= 1
        self.reactions_done += 1
        if kind == "lost":
            try:
                p.transport.write(b"from connectionLost")
                self.late_write_results.append((p.name, None))
            except Exception as e:
                self.late_write_results.append((p.name, type(e).__name__))
                if self.escaping and self.rng.random() < self.escaping:
                    # a protocol that says goodbye from connectionLost() and does not expect the error: it escapes
                    self.escaped += 1
                    raise
            return
        if getattr(p, "closed_local", False):
            return
        if kind == "data" and self.rng.random() < 0.25:
            self.close(p)
        else:
            self.write(p)

    def listen(self, side, name):
        f = RecFactory(self.dp, "%s.accept[%s]" % (side, name), half=self.rng.random() < self.half)
        if self.reactions or self.pauses:
            f.react = self._react
        self._maybe_falsy(f)
        f.sent_by = {}
        self.factories[side][name] = f
        self.dp.dilate(side).listener_for(name).listen(f).addCallback(lambda port: self.listening[side].add(name))

    def open(self, side, name):
        f = RecFactory(self.dp, "%s.open[%s]" % (side, name), half=self.rng.random() < self.half)
        if self.reactions or self.pauses:
            f.react = self._react
        self._maybe_falsy(f)
        rec = {"side": side, "name": name, "proto": None, "failure": None, "factory": f, "step": self.world.step}
        self.opens.append(rec)
        d = self.dp.dilate(side).connector_for(name).connect(f)

        def ok(p):
            rec["proto"] = p
            rec["made_step"] = self.world.step

        def bad(fl):
            rec["failure"] = fl.type.__name__
        d.addCallbacks(ok, bad)
        return rec

    def protos(self, side):
        out = [r["proto"] for r in self.opens if r["side"] == side and r["proto"] is not None]
        for f in self.factories[side].values():
            out += [p for (_, p) in f.built]
        return out

    @staticmethod
    def is_open(p):
        kinds = [e[0] for e in p.events]
        return "made" in kinds and "lost" not in kinds and not getattr(p, "closed_local", False) and \
            "write-lost" not in kinds

    def write(self, p, payload=None):
        if payload is None:
            self.counter += 1
            size = self.rng.choice(self.sizes)
            if isinstance(size, tuple):       # (lo, hi): a boundary region, every length in it equally likely
                size = self.rng.randint(*size)
            tag = ("%s:%d:" % (p.name, self.counter)).encode()
            payload = tag + self.rng.randbytes(max(0, size - len(tag)))
        if not hasattr(p, "sent"):
            p.sent = []
        # (recorded in the order the writes were issued: a write made from inside this one - by a producer that is told to
        #  pause by it - is issued, and sent, after it)
        p.sent.append(payload)
        n_ = len(p.sent)
        try:
            p.transport.write(payload)
        except Exception as e:
            del p.sent[n_ - 1]
            self.write_errors.append((p.name, type(e).__name__, repr(e)[:100]))

    def pause(self, p):
        p.app_paused = True
        self.pauses_done += 1
        p.transport.pauseProducing()

    def resume(self, p):
        p.app_paused = False
        if not self.dp.both_connected():
            self.resumes_offline += 1
        p.transport.resumeProducing()

    def close(self, p):
        if getattr(p, "app_paused", False):
            self.resume(p)
        p.closed_local = True
        p.close_step = self.world.step
        try:
            if isinstance(p, HalfRecProto):
                p.transport.loseWriteConnection()
            else:
                p.transport.loseConnection()
        except Exception as e:
            self.write_errors.append((p.name, "close:" + type(e).__name__, repr(e)[:100]))

    def actions(self, draining=False):
        if self.stop:
            return []
        acts = []
        rng = self.rng
        for side in "AB":
            for p in self.protos(side):
                if getattr(p, "app_paused", False) and "lost" not in [e[0] for e in p.events]:
                    acts.append((("app", side, "resume"), lambda p=p: self.resume(p)))
            if self.pauses > 0 and not draining:
                cand = [p for p in self.protos(side) if self.is_open(p) and not getattr(p, "app_paused", False)]
                if cand:
                    def pa(cand=cand):
                        self.pauses -= 1
                        self.pause(rng.choice(cand))
                    acts.append((("app", side, "pause"), pa))
            if self.pending_listen[side]:
                def li(side=side):
                    self.listen(side, self.pending_listen[side].pop(0))
                acts.append((("app", side, "listen"), li))
            if self.budget["open"][side] > 0:
                def op(side=side):
                    self.budget["open"][side] -= 1
                    self.open(side, rng.choice(self.names))
                acts.append((("app", side, "open"), op))
            live = [p for p in self.protos(side) if self.is_open(p)]
            if live and self.budget["write"] > 0:
                def wr(live=live):
                    self.budget["write"] -= 1
                    self.write(rng.choice(live))
                acts.append((("app", side, "write"), wr))
            if live and rng.random() < 0.15 * self.budget["close"]:
                def cl(live=live):
                    self.close(rng.choice(live))
                acts.append((("app", side, "close"), cl))
        return acts

    def drain_actions(self):
        return self.actions(draining=True)

    def pairs(self):
        """[(opener record, acceptor proto or None)] matched per (opener side, name) in FIFO order"""
        out = []
        for side in "AB":
            other = "B" if side == "A" else "A"
            for name in self.names:
                mine = [r for r in self.opens if r["side"] == side and r["name"] == name and r["proto"] is not None]
                mine.sort(key=lambda r: r.get("made_step", 0))
                f = self.factories[other].get(name)
                built = [p for (_, p) in f.built] if f is not None else []
                for i, r in enumerate(mine):
                    out.append((r, built[i] if i < len(built) else None))
        return out


def stream_check(sender_proto, receiver_proto, label):
    """receiver's data events must be a prefix of what the sender wrote, same boundaries"""
    sent = getattr(sender_proto, "sent", [])
    got = [e[1] for e in receiver_proto.events if e[0] == "data"]
    for j, g in enumerate(got):
        if j >= len(sent) or g != sent[j]:
            cat = "never-written"
            if g in sent:
                cat = "duplicate-or-out-of-order"
            elif any(g and (g in s2 or s2 in g) for s2 in sent if s2):
                cat = "boundary-changed"
            return cat, "%s: dataReceived #%d (%d bytes, %r..) is not write #%d (%s)" % (
                label, j, len(g), g[:16], j, ("%d bytes %r.." % (len(sent[j]), sent[j][:16])) if j < len(sent) else "nothing")
    return None
