"""Server-side adversaries (DESIGN.md 2.3).  They sit on the real server's `send`."""
import itertools


class ReorderDup:
    """Conformant-but-awkward: `message` responses to each client connection are pooled and
    released in scheduler-chosen order, some of them twice."""

    def __init__(self, world, p_dup=0.15, reorder=True, only_sides=None):
        self.world = world
        self.rng = world.rng
        self.p_dup = p_dup
        self.reorder = reorder
        self.pool = {}        # conn_id -> [(conn, kwargs)]
        self.released = 0
        self.dups = 0
        self.out_of_order = 0
        self.last_idx = {}
        self.seq = itertools.count()
        self.only_sides = only_sides

    def intercept(self, conn, mtype, kwargs):
        if mtype != "message":
            return False
        if self.only_sides is not None and conn._side not in self.only_sides:
            return False
        self.pool.setdefault(conn.conn_id, []).append((conn, dict(kwargs), next(self.seq)))
        return True

    def actions(self):
        acts = []
        for cid, lst in self.pool.items():
            if lst:
                acts.append((("adv", cid), lambda cid=cid: self.release(cid)))
        return acts

    def release(self, cid):
        lst = self.pool[cid]
        i = self.rng.randrange(len(lst)) if self.reorder else 0
        conn, kw, seq = lst.pop(i)
        if i != 0:
            self.out_of_order += 1
        if self.rng.random() < self.p_dup:
            lst.append((conn, dict(kw), seq))
            self.dups += 1
        self.released += 1
        conn.real_send("message", **kw)

    def flush_closed(self):
        for cid, lst in self.pool.items():
            lst[:] = [x for x in lst if x[0].state == x[0].STATE_OPEN]


class HoldPermute:
    """Hold every peer-originated `message` destined to one side until `n` are pooled, then
    release them in a fixed permutation (small-scope exhaustive delivery orders)."""

    def __init__(self, world, victim_side_getter, n, perm):
        self.world = world
        self.victim = victim_side_getter
        self.n = n
        self.perm = list(perm)
        self.held = []
        self.releasing = False
        self.released = 0
        self.out_of_order = 0
        self.dups = 0

    def intercept(self, conn, mtype, kwargs):
        if mtype != "message" or self.releasing or self.released:
            return False
        if conn._side != self.victim() or kwargs.get("side") == conn._side:
            return False
        if kwargs.get("phase") == "pake":
            return False   # the key exchange must complete before the peer can send the rest
        self.held.append((conn, dict(kwargs)))
        return True

    def actions(self):
        if len(self.held) >= self.n and not self.released:
            return [(("adv", "perm"), self.release_all)]
        return []

    def release_all(self):
        self.releasing = True
        held, self.held = self.held, []
        order = [held[i] for i in self.perm if i < len(held)]
        order += [h for h in held if h not in order]
        for k, (conn, kw) in enumerate(order):
            if held.index((conn, kw)) != k:
                self.out_of_order += 1
            self.released += 1
            conn.real_send("message", **kw)
        self.releasing = False

    def flush_closed(self):
        pass
