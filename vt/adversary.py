"""Server-side adversaries (DESIGN.md 2.3).  They sit on the real server's `send`."""
import itertools


class ReorderDup:
    """Conformant-but-awkward: `message` responses to each client connection are pooled and
    released in scheduler-chosen order, some of them twice."""

    def __init__(self, world, p_dup=0.15, reorder=True, only_sides=None):
        self.world = world
        self.rng = world.rng
        self.p_dup = p_dup
        self.reorder = reorder
        self.pool = {}        # conn_id -> [(conn, kwargs)]
        self.released = 0
        self.dups = 0
        self.out_of_order = 0
        self.last_idx = {}
        self.seq = itertools.count()
        self.only_sides = only_sides

    def intercept(self, conn, mtype, kwargs):
        if mtype != "message":
            return False
        if self.only_sides is not None and conn._side not in self.only_sides:
            return False
        self.pool.setdefault(conn.conn_id, []).append((conn, dict(kwargs), next(self.seq)))
        return True

    def actions(self):
        acts = []
        for cid, lst in self.pool.items():
            if lst:
                acts.append((("adv", cid), lambda cid=cid: self.release(cid)))
        return acts

    def release(self, cid):
        lst = self.pool[cid]
        i = self.rng.randrange(len(lst)) if self.reorder else 0
        conn, kw, seq = lst.pop(i)
        if i != 0:
            self.out_of_order += 1
        if self.rng.random() < self.p_dup:
            lst.append((conn, dict(kw), seq))
            self.dups += 1
        self.released += 1
        conn.real_send("message", **kw)

    def flush_closed(self):
        for cid, lst in self.pool.items():
            lst[:] = [x for x in lst if x[0].state == x[0].STATE_OPEN]


class HoldPermute:
    """Hold every peer-originated `message` destined to one side until `n` are pooled, then
    release them in a fixed permutation (small-scope exhaustive delivery orders)."""

    def __init__(self, world, victim_side_getter, n, perm):
        self.world = world
        self.victim = victim_side_getter
        self.n = n
        self.perm = list(perm)
        self.held = []
        self.releasing = False
        self.released = 0
        self.out_of_order = 0
        self.dups = 0

    def intercept(self, conn, mtype, kwargs):
        if mtype != "message" or self.releasing or self.released:
            return False
        if conn._side != self.victim() or kwargs.get("side") == conn._side:
            return False
        if kwargs.get("phase") == "pake":
            return False   # the key exchange must complete before the peer can send the rest
        self.held.append((conn, dict(kwargs)))
        return True

    def actions(self):
        if len(self.held) >= self.n and not self.released:
            return [(("adv", "perm"), self.release_all)]
        return []

    def release_all(self):
        self.releasing = True
        held, self.held = self.held, []
        order = [held[i] for i in self.perm if i < len(held)]
        order += [h for h in held if h not in order]
        for k, (conn, kw) in enumerate(order):
            if held.index((conn, kw)) != k:
                self.out_of_order += 1
            self.released += 1
            conn.real_send("message", **kw)
        self.releasing = False

    def flush_closed(self):
        pass


class Tamper:
    """C02: a malicious server (or third mailbox participant).  `ops` is a list of dicts
    {victim: 'A'|'B', at: n, op: ..., ...}; the op fires when the n-th `message` event destined
    to that victim passes through."""

    OPS = ("flip", "trunc", "extend", "relabel", "side-fresh", "side-own", "reflect", "inject",
           "dupdiff", "swap", "early-side")
    # not drawn at random (needs a long session): "replay-old" re-sends, verbatim, an early genuine message of the peer

    def __init__(self, world, ops):
        self.world = world
        self.rng = world.rng
        self.ops = ops
        self.names = {}          # side -> 'A'/'B'
        self.count = {}
        self.stored = {}
        self.tampered = []       # (victim name, op, kwargs as sent)
        self.held = {}
        self.early_pake = {}
        self.early_done = {}
        self.downstream = None    # optionally a ReorderDup that pools what this layer sends out
        self.out_of_order = 0
        self.dups = 0

    def name_of(self, side):
        return self.names.get(side, "?")

    def intercept(self, conn, mtype, kwargs):
        if mtype != "message":
            return False
        vs = conn._side
        v = self.name_of(vs)
        n = self.count.get(vs, 0)
        self.count[vs] = n + 1
        self.stored.setdefault(vs, []).append(dict(kwargs))
        out = [("genuine", dict(kwargs))]
        # early-side: the peer's PAKE is held back until one later message of the peer has been handed
        # out first, under a foreign side label (the client's pre-PAKE queue)
        early = [op for op in self.ops if op["victim"] == v and op["op"] == "early-side"]
        if early and kwargs.get("side") != vs and not self.early_done.get(vs):
            if kwargs.get("phase") == "pake":
                if vs not in self.early_pake:
                    self.early_pake[vs] = dict(kwargs)
                    return True
            elif vs in self.early_pake:
                op = early[0]
                t = dict(kwargs)
                t["id"] = "%04x" % self.rng.getrandbits(16)
                t["side"] = "%010x" % self.rng.getrandbits(40) if op.get("as", "fresh") == "fresh" else vs
                self.early_done[vs] = True
                self.tampered.append((v, "tampered-early-side", dict(t)))
                conn.real_send("message", **t)
                conn.real_send("message", **self.early_pake.pop(vs))
                if op.get("keep", True):
                    conn.real_send("message", **kwargs)
                return True
        for op in self.ops:
            if op["victim"] == v and op["at"] == n:
                out = self.apply(op, vs, dict(kwargs), out)
        # a swap holds one message back until the next one has gone out
        if vs in self.held and not any(k == "hold" for k, _ in out):
            out = out + [("tampered-order", self.held.pop(vs))]
        for kind, kw in out:
            if kind == "hold":
                self.held[vs] = kw
                continue
            if kind.startswith("tampered"):
                self.tampered.append((v, kind, dict(kw)))
            if self.downstream is not None:
                self.downstream.intercept(conn, "message", kw)
            else:
                conn.real_send("message", **kw)
        return True

    def actions(self):
        return self.downstream.actions() if self.downstream is not None else []

    def _mut_body(self, body_hex, how, rng):
        b = bytearray(bytes.fromhex(body_hex))
        if how == "flip":
            if not b:
                b = bytearray(b"\x01")
            else:
                i = rng.randrange(len(b) * 8)
                b[i // 8] ^= 1 << (i % 8)
        elif how == "trunc":
            b = b[:rng.randrange(0, max(1, len(b)))]
        elif how == "extend":
            b = b + rng.randbytes(rng.randint(1, 20))
        return bytes(b).hex()

    def apply(self, op, vs, kw, out):
        rng = self.rng
        kind = op["op"]
        peer_sides = [s for s in self.names if s != vs]
        peer = peer_sides[0] if peer_sides else "feedbeef00"
        fresh = "%010x" % rng.getrandbits(40)
        keep = op.get("keep", True)
        t = dict(kw)
        t["id"] = "%04x" % rng.getrandbits(16)
        if kind in ("flip", "trunc", "extend"):
            t["body"] = self._mut_body(kw["body"], kind, rng)
            return [("tampered", t)] + (out if keep else [])
        if kind == "dupdiff":
            t["body"] = self._mut_body(kw["body"], "flip", rng)
            return out + [("tampered", t)]
        if kind == "relabel":
            t["phase"] = op.get("phase", "0")
            if op.get("suffix"):
                t["phase"] = kw["phase"] + op["suffix"]      # e.g. a non-ASCII or whitespace variant of the genuine label
            if t["phase"] == kw["phase"]:
                t["phase"] = "7"
            return [("tampered", t)] + out
        if kind == "side-fresh":
            t["side"] = fresh
            return [("tampered", t)] + (out if keep else [])
        if kind == "side-own":
            t["side"] = vs if kw["side"] != vs else peer
            return [("tampered", t)] + (out if keep else [])
        if kind == "reflect":
            own = [m for m in self.stored.get(vs, []) if m["side"] == vs]
            # also the victim's adds seen on its connection so far
            if not own:
                return out
            m = dict(own[-1] if op.get("which", "last") == "last" else own[0])
            how = op.get("as", "peer")
            m["side"] = peer if how == "peer" else (vs + op.get("suffix", "\u00e9") if how == "own+suffix" else (vs.upper() if how == "own-upper" else fresh))
            m["id"] = t["id"]
            if op.get("phase"):
                m["phase"] = op["phase"]
            return [("tampered", m)] + out
        if kind == "inject":
            t["phase"] = op.get("phase", "0")
            t["side"] = peer if op.get("as", "peer") == "peer" else fresh
            if t["phase"] == "pake" and op.get("wellformed", True):
                import json as _j
                t["body"] = _j.dumps({"pake_v1": rng.randbytes(33).hex()}).encode().hex()
            else:
                t["body"] = rng.randbytes(rng.choice([0, 1, 24, 40, 80])).hex()
            return [("tampered", t)] + out
        if kind == "replay-foreign":
            # frames recorded in an EARLIER session of this process (another mailbox, another key), handed to the
            # victim under their old labels before the genuine messages of those phases
            outm = []
            for m in getattr(self, "foreign", []):
                m = dict(m)
                m["id"] = "%04x" % rng.getrandbits(16)
                outm.append(("tampered", m))
            return outm + out
        if kind == "swap":
            return [("hold", kw)]
        if kind == "replay-old":
            old = [m for m in self.stored.get(vs, []) if m.get("side") != vs and m.get("phase") == op.get("phase", "version")]
            if not old:
                return out
            m = dict(old[0])
            if op.get("fresh_id", True):
                m["id"] = t["id"]
            return out + [("tampered-replay", m)]
        return out
