"""Helpers for the Transit properties (C06, C07, C20 path 1): real TransitSender/TransitReceiver
on SimNet, frame-aware MITM for the record stream."""
from twisted.internet import defer

from .env import RELAY_HINT
from .simnet import unwrap

from wormhole import transit


def make_pair(world, key=None, relay=False, listen_s=True, listen_r=True, key_r=None, relay_r=None):
    """relay_r: the receiver's own relay hint when it differs from the sender's"""
    r = world.reactor
    key = key or world.work_rng.randbytes(32)
    # (one application, one timing object: in a third of the pairs both Transit objects are given the same DebugTiming,
    #  as the documented `timing=` argument allows; their connect() calls overlap)
    kw = {}
    if world.work_rng.random() < 0.34:
        from wormhole.timing import DebugTiming
        kw["timing"] = DebugTiming()
        world.shared_timing_pairs = getattr(world, "shared_timing_pairs", 0) + 1
    s = transit.TransitSender(RELAY_HINT if relay else None, no_listen=not listen_s, reactor=r, **kw)
    rc = transit.TransitReceiver((relay_r or RELAY_HINT) if relay else None, no_listen=not listen_r, reactor=r, **kw)
    s.set_transit_key(key)
    rc.set_transit_key(key_r or key)
    return s, rc, key


def hints_of(t):
    box = []
    t.get_connection_hints().addCallback(box.append)
    if not box:
        raise RuntimeError("get_connection_hints did not fire synchronously in the simulator")
    return box[0]


class Result:
    def __init__(self, d):
        self.value = None
        self.failure = None
        self.done = False
        self.step = None
        d.addCallbacks(self._ok, self._bad)

    def _ok(self, v):
        self.value, self.done = v, True

    def _bad(self, f):
        self.failure, self.done = f, True


def link_of(world, conn):
    """(link, end) of a transit Connection object"""
    for link in world.reactor.links:
        for e in link.ends:
            if e is not None and unwrap(e.protocol) is conn:
                return link, e.end
    return None, None


def split_frames(buf):
    """split a byte string into complete length-prefixed frames; returns (frames, rest)"""
    frames = []
    while len(buf) >= 4:
        n = int.from_bytes(buf[:4], "big")
        if len(buf) < 4 + n:
            break
        frames.append(bytes(buf[:4 + n]))
        buf = buf[4 + n:]
    return frames, buf


class FrameMITM:
    """Frame-aware man in the middle for one direction of a transit record stream.
    ops: {frame index -> op dict}.  Records what it changed."""

    def __init__(self, rng, ops, other=None, prefix_skip=0):
        self.rng = rng
        self.ops = ops
        self.buf = bytearray()
        self.index = 0
        self.first_altered = None     # index of the first frame whose bytes differ from what was sent
        self.log = []
        self.seen = []               # genuine frames in order (for reflection by the other direction)
        self.other = other
        self.held = None
        self.cut = False
        self.skip = prefix_skip

    def _mark(self, what):
        if self.first_altered is None:
            self.first_altered = self.index
        self.log.append((self.index, what))

    def __call__(self, chunk):
        if self.cut:
            return b""
        if chunk is None:
            out = bytes(self.buf)
            self.buf.clear()
            if self.held is not None:
                out = self.held + out
                self.held = None
            return out
        self.buf += chunk
        out = bytearray()
        frames, rest = split_frames(bytes(self.buf))
        self.buf = bytearray(rest)
        for f in frames:
            out += self._frame(f)
            self.index += 1
            if self.cut:
                break
        return bytes(out)

    def _flip(self, f, field):
        b = bytearray(f)
        body_len = len(f) - 4
        if field == "length":
            lo, hi = 0, 4
        elif field == "nonce":
            lo, hi = 4, min(len(f), 28)
        elif field == "tag":
            lo, hi = min(len(f), 28), min(len(f), 44)
        else:
            lo, hi = min(len(f), 44), len(f)
        if hi <= lo:
            lo, hi = 4, len(f)
        if hi <= lo:
            lo, hi = 0, 4
        i = self.rng.randrange(lo * 8, hi * 8)
        b[i // 8] ^= 1 << (i % 8)
        return bytes(b)

    def _frame(self, f):
        self.seen.append(f)
        op = self.ops.get(self.index)
        out = f
        if self.held is not None and (op is None or op["op"] != "swap"):
            out = f + self.held
            self.held = None
        if op is None:
            return out
        kind = op["op"]
        if kind == "flip":
            self._mark("flip " + op["field"])
            return self._flip(f, op["field"])
        if kind == "delete":
            self._mark("delete")
            return b""
        if kind == "swap":
            self._mark("swap with next")
            self.held = f
            return b""
        if kind == "replay":
            self.log.append((self.index, "replay"))
            if self.first_altered is None:
                self.first_altered = self.index + 1    # the genuine one is still fine
            return f + f
        if kind == "truncate":
            self._mark("truncate then close")
            self.cut = True
            return f[:self.rng.randrange(0, len(f))]
        if kind == "inject":
            self._mark("inject forged frame")
            from nacl.secret import SecretBox
            box = SecretBox(self.rng.randbytes(32))
            nonce = self.index.to_bytes(24, "big")
            enc = bytes(box.encrypt(self.rng.randbytes(self.rng.choice([0, 5, 100])), nonce))
            return len(enc).to_bytes(4, "big") + enc + f
        if kind == "reflect":
            src = self.other.seen if self.other is not None else []
            if not src:
                return out
            self._mark("reflect frame from the opposite direction")
            return src[min(len(src) - 1, op.get("which", 0))] + f
        return out


class RecordingConsumer:
    """IConsumer that records every write (one per record)"""

    def __init__(self):
        self.writes = []
        self.producer = None

    def registerProducer(self, producer, streaming):
        self.producer = producer

    def unregisterProducer(self):
        self.producer = None

    def write(self, data):
        self.writes.append(bytes(data))


class TransportLikeConsumer(RecordingConsumer):
    """behaves like a Twisted transport: when its buffer is full it pauses its producer from inside write(), and when the
    buffer has drained it resumes the producer - if one is still registered"""

    def __init__(self, rng):
        RecordingConsumer.__init__(self)
        self.rng = rng
        self.paused = False
        self.pauses = 0

    def write(self, data):
        RecordingConsumer.write(self, data)
        if self.producer is not None and not self.paused and self.rng.random() < 0.5:
            self.paused = True
            self.pauses += 1
            self.producer.pauseProducing()

    def drained(self):
        if self.paused:
            self.paused = False
            if self.producer is not None:
                self.producer.resumeProducing()


class QueueLikeConsumer(RecordingConsumer):
    """a consumer that is also a container and is empty (false) when it is attached"""

    def __len__(self):
        return 0


class Reader:
    """drives receive_record() on one Connection and records what it surfaces"""

    def __init__(self, conn, retry_from_errback=0):
        self.conn = conn
        self.got = []
        self.errors = []
        self.pending = 0
        self.open = []            # [Deferred, given_up] of reads that have not been answered yet
        self.given_up = 0
        self.retry_from_errback = retry_from_errback      # reads re-issued from inside a failed read's errback
        self.retried = 0

    def read(self):
        self.pending += 1
        d = self.conn.receive_record()
        rec = [d, False]
        self.open.append(rec)

        def ok(r):
            self.pending -= 1
            if rec in self.open:
                self.open.remove(rec)
            self.got.append(bytes(r))

        def bad(f):
            self.pending -= 1
            if rec in self.open:
                self.open.remove(rec)
            if rec[1]:
                return          # we gave up on this read ourselves (a timeout)
            self.errors.append(f.type.__name__)
            if self.retry_from_errback > 0:
                # `except ConnectionClosed:` in inlineCallbacks code runs right here, inside the errback
                self.retry_from_errback -= 1
                self.retried += 1
                self.read()
        d.addCallbacks(ok, bad)

    def give_up_one(self):
        """Deferred.cancel() on the oldest unanswered read (what addTimeout() does)"""
        for rec in self.open:
            if not rec[1]:
                rec[1] = True
                self.given_up += 1
                rec[0].cancel()
                return True
        return False
